(* First part of build_d4_ddnnf (the line loop): the graph represents the file.  `rep` relates
   the tokens read so far to the loader state: declared node i is graph node idx[i-1] with the
   declared kind, and its child list is, newest first, one representative per edge line - the
   target itself for an unlabelled edge, a fresh And over (target, literal leaves) otherwise.
   From `rep` of the whole file: the value of every declared node in the graph is its value in
   the file semantics (Spec/D4Sem.v). *)
From Coq Require Import List ZArith Bool Lia Arith.
From DD Require Import Model.Circuit Model.LexerD4 Model.LoadC2d Model.LoadD4 Spec.D4Sem
  Proofs.Renum Proofs.LoadD4Graph Proofs.LoadD4Ops Proofs.LoadD4Pass2 Proofs.LoadD4Struct.
Import ListNotations.
Local Open Scope nat_scope.

Definition tid_of_kind (k : d4kind) : tid :=
  match k with KOr => GOr | KAnd => GAnd | KTrue => GTrue | KFalse => GFalse end.

Definition lit_nodes (g : sgraph) (lits : list Z) (lns : list nat) : Prop :=
  Forall2 (fun l z => sg_label g z = Some (GLit l)) lits lns.

Definition exp_node (g : sgraph) (y : nat) (lits : list Z) (tx : nat) : Prop :=
  sg_label g y = Some GAnd /\ exists lns, sg_out g y = tx :: rev lns /\ lit_nodes g lits lns.

Definition edge_rep (g : sgraph) (idx : list nat) (e : list Z * nat) (y : nat) : Prop :=
  exists tx, 1 <= snd e /\ nth_error idx (snd e - 1) = Some tx /\
    ((fst e = [] /\ y = tx) \/ (fst e <> [] /\ ~ In y idx /\ exp_node g y (fst e) tx)).

Definition unl (e : list Z * nat) : bool := match fst e with [] => true | _ => false end.

Record rep (P : Z -> Prop) (st : bool) (n0 : nat) (done : list d4token) (b : bstate) : Prop := {
  rp_core : core_ok P st (bs_ls b);
  rp_tri : ls_tri (bs_ls b) = [];
  rp_nodup : NoDup (bs_idx b);
  rp_decl : Forall2 (fun k x => sg_label (ls_g (bs_ls b)) x = Some (tid_of_kind k))
                    (d4_decls done) (bs_idx b);
  rp_edges : forall i x, nth_error (bs_idx b) i = Some x ->
             Forall2 (edge_rep (ls_g (bs_ls b)) (bs_idx b)) (rev (d4_edges_from done (S i)))
                     (sg_out (ls_g (bs_ls b)) x);
  rp_range : forall i, length (bs_idx b) <= i -> d4_edges_from done (S i) = [];
  rp_total : bs_total b = Nat.max n0 (d4_maxvar done);
  (* NodeIndex::new(0) is the node of the first declaration *)
  rp_first : forall x, nth_error (bs_idx b) 0 = Some x -> x = 0;
  rp_empty : bs_idx b = [] -> ls_g (bs_ls b) = sg_empty;
  (* a node that is not declared is a literal leaf or an expansion And *)
  rp_class : forall y t, sg_label (ls_g (bs_ls b)) y = Some t -> In y (bs_idx b) \/ is_litk t \/ t = GAnd;
  (* the occurrence table *)
  rp_occ : forall f, In f (bs_occ b) <-> exists from to fs, In (DEdge from to fs) done /\ In f (map Z.abs_nat fs);
  rp_lits : forall k z, lookupZ (ls_lits (bs_ls b)) k = Some z -> In (Z.abs_nat k) (bs_occ b);
  (* an and node that is not declared is the expansion of a labelled edge *)
  rp_exp : forall y, sg_label (ls_g (bs_ls b)) y = Some GAnd -> ~ In y (bs_idx b) ->
           exists i e tx, In e (d4_edges_from done i) /\ fst e <> [] /\ 1 <= snd e /\
                          nth_error (bs_idx b) (snd e - 1) = Some tx /\ exp_node (ls_g (bs_ls b)) y (fst e) tx;
  (* no duplicate children where the unlabelled edges of the node have distinct targets *)
  rp_ndout : forall i x, nth_error (bs_idx b) i = Some x ->
             NoDup (map snd (filter unl (d4_edges_from done (S i)))) -> NoDup (sg_out (ls_g (bs_ls b)) x)
}.

(* ---------- small facts ---------- *)
Lemma d4_decls_app a b : d4_decls (a ++ b) = d4_decls a ++ d4_decls b.
Proof. unfold d4_decls. apply flat_map_app. Qed.
Lemma d4_edges_from_app a b i : d4_edges_from (a ++ b) i = d4_edges_from a i ++ d4_edges_from b i.
Proof. unfold d4_edges_from. apply flat_map_app. Qed.

Lemma fold_right_max_app l1 l2 :
  fold_right Nat.max 0 (l1 ++ l2) = Nat.max (fold_right Nat.max 0 l1) (fold_right Nat.max 0 l2).
Proof. induction l1 as [|x l1 IH]; cbn [app fold_right]; [reflexivity|]. rewrite IH. lia. Qed.

Lemma d4_maxvar_snoc done t : d4_maxvar (done ++ [t]) = Nat.max (d4_maxvar done) (d4_token_max t).
Proof. unfold d4_maxvar. rewrite map_app, fold_right_max_app. cbn [map fold_right]. lia. Qed.

Lemma fold_left_max l : forall a, fold_left Nat.max l a = Nat.max a (fold_right Nat.max 0 l).
Proof. induction l as [|x l IH]; intros a; cbn [fold_left fold_right]; [lia|]. rewrite IH. lia. Qed.

Lemma Forall2_nth_error {A B} (R : A -> B -> Prop) l l' i y :
  Forall2 R l l' -> nth_error l' i = Some y -> exists x, nth_error l i = Some x /\ R x y.
Proof.
  intros H. revert i. induction H as [|a b l l' Hab _ IH]; intros [|i] Hi; cbn [nth_error] in *; try discriminate.
  - injection Hi as <-. now exists a.
  - now apply IH.
Qed.

Lemma Forall2_nth_error_l {A B} (R : A -> B -> Prop) l l' i x :
  Forall2 R l l' -> nth_error l i = Some x -> exists y, nth_error l' i = Some y /\ R x y.
Proof.
  intros H. revert i. induction H as [|a b l l' Hab _ IH]; intros [|i] Hi; cbn [nth_error] in *; try discriminate.
  - injection Hi as <-. now exists b.
  - now apply IH.
Qed.

Lemma idx_alive P st n0 done b x : rep P st n0 done b -> In x (bs_idx b) -> sg_alive (ls_g (bs_ls b)) x = true.
Proof.
  intros HR Hin. apply In_nth_error in Hin. destruct Hin as [i Hi].
  destruct (Forall2_nth_error _ _ _ _ _ (rp_decl _ _ _ _ _ HR) Hi) as [k [_ Hk]].
  unfold sg_alive. now rewrite Hk.
Qed.

Lemma NoDup_app_l {A} (a b : list A) : NoDup (a ++ b) -> NoDup a.
Proof.
  induction a as [|x a IH]; cbn [app]; intros H; [constructor|]. inversion H; subst.
  constructor; [|now apply IH]. intros Hx. apply H2. apply in_or_app. now left.
Qed.

Lemma NoDup_app_snoc {A} (l : list A) x : NoDup l -> ~ In x l -> NoDup (l ++ [x]).
Proof.
  induction 1 as [|y l Hy Hl IH]; intros Hx; cbn [app]; [constructor; [intros []|constructor]|].
  constructor.
  - intros Hin. apply in_app_or in Hin. destruct Hin as [Hin|[<-|[]]]; [now apply Hy|apply Hx; now left].
  - apply IH. intros Hin. apply Hx. now right.
Qed.

(* ---------- transport of the representation along an extension ---------- *)
Lemma lit_nodes_ext g g' D lits lns : ext g g' D -> lit_nodes g lits lns -> lit_nodes g' lits lns.
Proof. intros He H. eapply Forall2_impl; [|exact H]. intros l z Hz. exact (ext_label_some _ _ _ _ _ He Hz). Qed.

Lemma exp_node_ext g g' D y lits tx : ext g g' D -> ~ In y D -> exp_node g y lits tx -> exp_node g' y lits tx.
Proof.
  intros He Hy [Hl [lns [Ho Hn]]]. split; [exact (ext_label_some _ _ _ _ _ He Hl)|].
  exists lns. split; [|exact (lit_nodes_ext _ _ _ _ _ He Hn)].
  rewrite (ex_out _ _ _ He y); [exact Ho|unfold sg_alive; now rewrite Hl|exact Hy].
Qed.

Lemma edge_rep_ext g g' idx idx' D e y : ext g g' D -> (forall z, In z D -> In z idx) ->
  (forall i x, nth_error idx i = Some x -> nth_error idx' i = Some x) ->
  (forall z, In z idx' -> In z idx \/ sg_alive g z = false) ->
  edge_rep g idx e y -> edge_rep g' idx' e y.
Proof.
  intros He HD Hsub Hnew [tx [H1 [H2 H3]]]. exists tx. split; [exact H1|]. split; [now apply Hsub|].
  destruct H3 as [H3|[H3 [H4 H5]]]; [now left|]. right. split; [exact H3|]. split.
  - intros Hin. destruct (Hnew y Hin) as [Hy|Hy]; [now apply H4|].
    destruct H5 as [Hl _]. unfold sg_alive in Hy. now rewrite Hl in Hy.
  - apply (exp_node_ext g g' D); [exact He| |exact H5]. intros Hin. now apply H4, HD.
Qed.

Section Parse.
Variable rc : bool.
Context {P : Z -> Prop} {st : bool}.
(* the whole file: an edge line may only leave an or / and node when st is set *)
Variable all : list d4token.
Definition gate_from (from : Z) : Prop :=
  exists k, nth_error (d4_decls all) (Z.to_nat from - 1) = Some k /\ (k = KOr \/ k = KAnd).

(* ---------- declarations ---------- *)
Lemma rep_decl n0 done b t k : rep P st n0 done b -> d4_kind t = [k] -> d4_token_max t = 0 ->
  (forall i, d4_edge_of i t = []) ->
  rep P st n0 (done ++ [t]) (decl rc (tid_of_kind k) b).
Proof.
  intros HR Hk Hmax Hne. unfold decl.
  destruct (add_node rc (tid_of_kind k) (ls_g (bs_ls b))) as [x g'] eqn:Ha.
  pose proof HR as [[HI Hl Hp Hinj Hsr] Htri Hnd Hdecl Hedges Hrange Htot Hfirst Hempty Hclass Hocc Hlits Hexp Hndo].
  pose proof (add_node_ext rc _ _ _ _ [] HI Ha) as He.
  pose proof (add_node_fresh rc _ _ _ _ HI Ha) as Hfresh.
  pose proof (add_node_label_new rc _ _ _ _ HI Ha) as Hlx.
  assert (Hxd : sg_alive (ls_g (bs_ls b)) x = false) by (unfold sg_alive; now rewrite Hfresh).
  assert (Hxn : ~ In x (bs_idx b)).
  { intros Hin. rewrite (idx_alive _ _ _ _ _ _ HR Hin) in Hxd. discriminate. }
  constructor; unfold with_g; cbn [bs_ls bs_idx bs_occ bs_total ls_g ls_lits ls_tri].
  - constructor; cbn [ls_g ls_lits].
    + apply (add_node_Inv rc _ _ _ _ HI Ha).
    + intros l z Hz. apply (ext_label_some _ _ _ _ _ He). now apply Hl.
    + intros z l Hz. destruct (Nat.eq_dec z x) as [->|Hzx].
      * rewrite Hlx in Hz. destruct k; discriminate.
      * rewrite (add_node_label_old rc _ _ _ _ Ha z Hzx) in Hz. now apply (Hp z).
    + intros z l Hz. destruct (Nat.eq_dec z x) as [->|Hzx].
      * rewrite Hlx in Hz. destruct k; discriminate.
      * rewrite (add_node_label_old rc _ _ _ _ Ha z Hzx) in Hz. now apply (Hinj z).
    + intros Hst. exact (add_node_srcs rc _ _ _ _ HI Ha (Hsr Hst)).
  - exact Htri.
  - apply NoDup_app_snoc; assumption.
  - rewrite d4_decls_app. unfold d4_decls at 2. cbn [flat_map]. rewrite Hk, app_nil_r.
    apply Forall2_app; [|repeat constructor; exact Hlx].
    eapply Forall2_impl; [|exact Hdecl]. intros k' z Hz. exact (ext_label_some _ _ _ _ _ He Hz).
  - intros i z Hi. rewrite d4_edges_from_app. unfold d4_edges_from at 2. cbn [flat_map].
    rewrite Hne, !app_nil_r.
    destruct (Nat.lt_ge_cases i (length (bs_idx b))) as [Hlt|Hge].
    + rewrite nth_error_app1 in Hi by exact Hlt.
      assert (Hza : sg_alive (ls_g (bs_ls b)) z = true) by (apply (idx_alive _ _ _ _ _ _ HR); now apply nth_error_In in Hi).
      rewrite (ex_out _ _ _ He z Hza) by (intros []).
      eapply Forall2_impl; [|exact (Hedges i z Hi)]. intros e y Hey.
      apply (edge_rep_ext _ _ (bs_idx b) _ [] e y He); [intros ? []| | |exact Hey].
      * intros j w Hj. rewrite nth_error_app1; [exact Hj|]. apply nth_error_Some. congruence.
      * intros w Hw. apply in_app_or in Hw. destruct Hw as [Hw|[<-|[]]]; [now left|now right].
    + rewrite (Hrange i Hge). cbn [rev].
      rewrite nth_error_app2 in Hi by exact Hge.
      destruct (i - length (bs_idx b)) as [|j] eqn:Ej; cbn [nth_error] in Hi; [|destruct j; discriminate].
      injection Hi as <-. rewrite (add_node_no_out rc _ _ _ _ HI Ha). constructor.
  - intros i Hi. rewrite app_length in Hi. cbn [length] in Hi. rewrite d4_edges_from_app.
    unfold d4_edges_from at 2. cbn [flat_map]. rewrite Hne, app_nil_r. apply Hrange. lia.
  - rewrite d4_maxvar_snoc, Hmax. rewrite Htot. lia.
  - intros z Hz. destruct (bs_idx b) as [|z0 r] eqn:Eidx.
    + cbn [app nth_error] in Hz. injection Hz as <-. rewrite (Hempty eq_refl) in Ha.
      unfold add_node in Ha. cbn in Ha. destruct rc; now injection Ha as <- _.
    + cbn [app nth_error] in Hz. now apply Hfirst.
  - intros E. destruct (bs_idx b); discriminate.
  - intros y ty Hy. destruct (add_node_label_cases rc _ _ _ _ _ _ Ha Hy) as [[-> _]|[_ H0]].
    + left. apply in_or_app. right. now left.
    + destruct (Hclass y ty H0) as [H1|H1]; [left; apply in_or_app; now left|now right].
  - intros f. rewrite Hocc. split; intros [from [to [fs [Hin Hf]]]]; exists from, to, fs; (split; [|exact Hf]).
    + apply in_or_app. now left.
    + apply in_app_or in Hin. destruct Hin as [Hin|[E|[]]]; [exact Hin|]. subst t. cbn in Hk. discriminate.
  - exact Hlits.
  - intros y Hy Hny. destruct (add_node_label_cases rc _ _ _ _ _ _ Ha Hy) as [[-> _]|[Hyx H0]].
    + exfalso. apply Hny. apply in_or_app. right. now left.
    + destruct (Hexp y H0) as [i [e [tx [He1 [He2 [He3 [He4 He5]]]]]]]; [intros Hin; apply Hny; apply in_or_app; now left|].
      exists i, e, tx. split; [rewrite d4_edges_from_app; apply in_or_app; now left|]. split; [exact He2|]. split; [exact He3|].
      split; [rewrite nth_error_app1; [exact He4|apply nth_error_Some; congruence]|].
      apply (exp_node_ext _ _ [] _ _ _ He); [intros []|exact He5].
  - intros i z Hi Hnd'. rewrite d4_edges_from_app in Hnd'. unfold d4_edges_from at 2 in Hnd'. cbn [flat_map] in Hnd'.
    rewrite Hne, !app_nil_r in Hnd'.
    destruct (Nat.lt_ge_cases i (length (bs_idx b))) as [Hlt|Hge].
    + rewrite nth_error_app1 in Hi by exact Hlt.
      assert (Hza : sg_alive (ls_g (bs_ls b)) z = true) by (apply (idx_alive _ _ _ _ _ _ HR); now apply nth_error_In in Hi).
      rewrite (ex_out _ _ _ He z Hza) by (intros []). exact (Hndo i z Hi Hnd').
    + rewrite nth_error_app2 in Hi by exact Hge.
      destruct (i - length (bs_idx b)) as [|j] eqn:Ej; cbn [nth_error] in Hi; [|destruct j; discriminate].
      injection Hi as <-. rewrite (add_node_no_out rc _ _ _ _ HI Ha). constructor.
Qed.

(* ---------- the literal leaves of an edge ---------- *)
Lemma get_lits_spec : forall ls s lns s', core_ok P st s -> Forall P ls ->
  get_lits rc ls s = (lns, s') ->
  core_ok P st s' /\ ext (ls_g s) (ls_g s') [] /\ lit_nodes (ls_g s') ls lns /\ ls_tri s' = ls_tri s.
Proof.
  induction ls as [|l r IH]; intros s lns s' Hc Hnz H; cbn [get_lits] in H.
  - injection H as <- <-. split; [exact Hc|]. split; [apply ext_refl|]. split; [constructor|reflexivity].
  - inversion Hnz as [|? ? Hl Hr]; subst.
    destruct (get_lit rc l s) as [x s1] eqn:E1.
    destruct (get_lits rc r s1) as [xs s2] eqn:E2. injection H as <- <-.
    destruct (get_lit_core rc l s x s1 [] Hc Hl E1) as [Hc1 [He1 [Hlx Ht1]]].
    destruct (IH s1 xs s2 Hc1 Hr E2) as [Hc2 [He2 [Hn2 Ht2]]].
    split; [exact Hc2|]. split; [exact (ext_trans _ _ _ _ He1 He2)|]. split; [|congruence].
    constructor; [exact (ext_label_some _ _ _ _ _ He2 Hlx)|exact Hn2].
Qed.

Lemma add_edges_to_spec an : forall bs s s', core_ok P st s -> (st = true -> gate_at (ls_g s) an) ->
  add_edges_to an bs s = Some s' ->
  core_ok P st s' /\ ext (ls_g s) (ls_g s') [an] /\ sg_out (ls_g s') an = rev bs ++ sg_out (ls_g s) an /\
  ls_tri s' = ls_tri s.
Proof.
  induction bs as [|b r IH]; intros s s' Hc Hg H; cbn [add_edges_to] in H.
  - injection H as <-. split; [exact Hc|]. split; [apply ext_refl|]. split; reflexivity.
  - destruct (ls_add_edge an b s) as [s1|] eqn:E1; [|discriminate].
    destruct (ls_add_edge_core an b s s1 [an] Hc (or_introl eq_refl) Hg E1) as [Hc1 [He1 [Ht1 [_ Ho1]]]].
    destruct (IH s1 s' Hc1 (fun Hst => gate_at_ext _ _ _ _ He1 (Hg Hst)) H) as [Hc' [He' [Ho' Ht']]].
    split; [exact Hc'|]. split; [exact (ext_trans _ _ _ _ He1 He')|]. split; [|congruence].
    rewrite Ho', Ho1. cbn [rev]. now rewrite <- app_assoc.
Qed.

Lemma remove1_head c l : remove1 c (c :: l) = l.
Proof. cbn [remove1]. now rewrite Nat.eqb_refl. Qed.

(* resolve_weighted_edge after the plain edge a -> c was added *)
Lemma resolve_spec a c fs s s1 s2 : core_ok P st s -> Forall P fs -> (st = true -> gate_at (ls_g s) a) ->
  ls_add_edge a c s = Some s1 -> resolve_weighted_edge rc a c fs s1 = Some s2 ->
  core_ok P st s2 /\ ls_tri s2 = ls_tri s /\ ext (ls_g s) (ls_g s2) [a] /\
  exists y, sg_out (ls_g s2) a = y :: sg_out (ls_g s) a /\
    ((fs = [] /\ y = c) \/ (fs <> [] /\ sg_alive (ls_g s) y = false /\ exp_node (ls_g s2) y fs c)).
Proof.
  intros Hc Hnz Hga E1 H.
  destruct (ls_add_edge_core a c s s1 [a] Hc (or_introl eq_refl) Hga E1) as [Hc1 [He01 [Ht1 [_ Ho1]]]].
  assert (Hal : sg_alive (ls_g s) a = true /\ sg_alive (ls_g s) c = true).
  { unfold ls_add_edge in E1. destruct (add_edge a c (ls_g s)) as [g1|] eqn:E; [|discriminate].
    exact (add_edge_alive a c _ _ E). }
  destruct Hal as [Haa Hca].
  unfold resolve_weighted_edge in H.
  destruct (get_lits rc fs s1) as [lns s1'] eqn:El.
  destruct (get_lits_spec fs s1 lns s1' Hc1 Hnz El) as [Hc1' [He11 [Hn1 Ht1']]].
  destruct lns as [|ln0 lns'].
  - (* no literal: the plain edge stays *)
    injection H as <-. inversion Hn1; subst.
    split; [exact Hc1'|]. split; [congruence|].
    split; [apply (ext_trans _ _ _ _ He01), (ext_weaken _ _ []); [intros ? []|exact He11]|].
    exists c. split; [|left; now split].
    rewrite (ex_out _ _ _ He11 a (ext_alive _ _ _ _ He01 Haa)) by (intros []). exact Ho1.
  - set (lns := ln0 :: lns') in *.
    assert (Hfs : fs <> []) by (intros ->; inversion Hn1).
    destruct (add_node rc GAnd (ls_g s1')) as [an g2] eqn:Ha.
    set (s2' := with_g s1' (remove_edge a c g2)) in H.
    destruct (ls_add_edge a an s2') as [s3|] eqn:E3; [|discriminate].
    destruct (add_edges_to an lns s3) as [s4|] eqn:E4; [|discriminate].
    destruct Hc1' as [HI1 Hl1 Hp1 Hj1 Hsr1].
    pose proof (add_node_fresh rc _ _ _ _ HI1 Ha) as Hfresh.
    pose proof (add_node_label_new rc _ _ _ _ HI1 Ha) as Hlan.
    pose proof (add_node_no_out rc _ _ _ _ HI1 Ha) as Hoan.
    pose proof (add_node_ext rc _ _ _ _ [] HI1 Ha) as He12.
    assert (Ha1 : sg_alive (ls_g s1') a = true) by exact (ext_alive _ _ _ _ He11 (ext_alive _ _ _ _ He01 Haa)).
    assert (Hne : an <> a) by (intros ->; unfold sg_alive in Ha1; now rewrite Hfresh in Ha1).
    assert (Hand : sg_alive (ls_g s) an = false).
    { destruct (sg_alive (ls_g s) an) eqn:E; [|reflexivity].
      pose proof (ext_alive _ _ _ _ He11 (ext_alive _ _ _ _ He01 E)) as E'. unfold sg_alive in E'. now rewrite Hfresh in E'. }
    assert (Hc2' : core_ok P st s2').
    { constructor; cbn [s2' with_g ls_g ls_lits ls_tri].
      - apply remove_edge_Inv, (add_node_Inv rc _ _ _ _ HI1 Ha).
      - intros l z Hz. rewrite remove_edge_label. apply (ext_label_some _ _ _ _ _ He12). now apply Hl1.
      - intros z l Hz. rewrite remove_edge_label in Hz. destruct (Nat.eq_dec z an) as [->|Hza]; [congruence|].
        rewrite (add_node_label_old rc _ _ _ _ Ha z Hza) in Hz. now apply (Hp1 z).
      - intros z l Hz. rewrite remove_edge_label in Hz. destruct (Nat.eq_dec z an) as [->|Hza]; [congruence|].
        rewrite (add_node_label_old rc _ _ _ _ Ha z Hza) in Hz. now apply (Hj1 z).
      - intros Hst. apply remove_edge_srcs. exact (add_node_srcs rc _ _ _ _ HI1 Ha (Hsr1 Hst)). }
    assert (He22 : ext (ls_g s1') (ls_g s2') [a]).
    { apply (ext_trans _ g2); [apply (ext_weaken _ _ []); [intros ? []|exact He12]|]. apply remove_edge_ext. now left. }
    assert (Ho2a : sg_out (ls_g s2') a = sg_out (ls_g s) a).
    { cbn [s2' with_g ls_g]. rewrite remove_edge_out_same, (add_node_out rc _ _ _ _ Ha).
      rewrite (ex_out _ _ _ He11 a (ext_alive _ _ _ _ He01 Haa)) by (intros []).
      rewrite Ho1. apply remove1_head. }
    assert (Ho2n : sg_out (ls_g s2') an = []).
    { cbn [s2' with_g ls_g]. rewrite remove_edge_out_other by exact Hne. exact Hoan. }
    assert (Hl2n : sg_label (ls_g s2') an = Some GAnd) by exact Hlan.
    destruct (ls_add_edge_core a an s2' s3 [a] Hc2' (or_introl eq_refl)
                (fun Hst => gate_at_ext _ _ _ _ He22 (gate_at_ext _ _ _ _ He11 (gate_at_ext _ _ _ _ He01 (Hga Hst)))) E3) as [Hc3 [He23 [Ht3 [_ Ho3]]]].
    destruct (add_edges_to_spec an lns s3 s4 Hc3 (fun _ => gate_at_ext _ _ _ _ He23 (gate_and _ _ Hl2n)) E4) as [Hc4 [He34 [Ho4 Ht4]]].
    destruct (ls_add_edge_core an c s4 s2 [an] Hc4 (or_introl eq_refl)
                (fun _ => gate_at_ext _ _ _ _ He34 (gate_at_ext _ _ _ _ He23 (gate_and _ _ Hl2n))) H) as [Hc5 [He45 [Ht5 [_ Ho5]]]].
    pose proof (ext_trans _ _ _ _ He34 He45) as He35.
    assert (Ha2 : sg_alive (ls_g s2') a = true) by exact (ext_alive _ _ _ _ He22 Ha1).
    assert (Ha3 : sg_alive (ls_g s3) a = true) by exact (ext_alive _ _ _ _ He23 Ha2).
    assert (Han2 : sg_alive (ls_g s2') an = true) by (unfold sg_alive; now rewrite Hl2n).
    split; [exact Hc5|]. split; [cbn [s2' with_g ls_tri] in Ht3; congruence|].
    assert (He : ext (ls_g s) (ls_g s2) [an; a]).
    { apply (ext_trans _ (ls_g s1)); [apply (ext_weaken _ _ [a]); [intros y Hy; now right|exact He01]|].
      apply (ext_trans _ (ls_g s1')); [apply (ext_weaken _ _ []); [intros ? []|exact He11]|].
      apply (ext_trans _ (ls_g s2')); [apply (ext_weaken _ _ [a]); [intros y Hy; now right|exact He22]|].
      apply (ext_trans _ (ls_g s3)); [apply (ext_weaken _ _ [a]); [intros y Hy; now right|exact He23]|].
      apply (ext_weaken _ _ [an]); [intros y [<-|[]]; now left|exact He35]. }
    split; [exact (ext_drop_dead _ _ _ _ Hand He)|].
    exists an. split.
    + rewrite (ex_out _ _ _ He35 a Ha3) by (intros [E|[]]; congruence). now rewrite Ho3, Ho2a.
    + right. split; [exact Hfs|]. split; [exact Hand|]. split.
      * exact (ext_label_some _ _ _ _ _ He35 (ext_label_some _ _ _ _ _ He23 Hl2n)).
      * exists lns. split.
        -- rewrite Ho5, Ho4. f_equal.
           rewrite (ex_out _ _ _ He23 an Han2) by (intros [E|[]]; congruence).
           rewrite Ho2n. apply app_nil_r.
        -- apply (lit_nodes_ext _ _ _ _ _ He35), (lit_nodes_ext _ _ _ _ _ He23), (lit_nodes_ext _ _ _ _ _ He22). exact Hn1.
Qed.

Lemma get_lits_S : forall ls s lns s', get_lits rc ls s = (lns, s') ->
  forall y t, sg_label (ls_g s') y = Some t -> sg_label (ls_g s) y = Some t \/ is_litk t.
Proof.
  induction ls as [|l r IH]; intros s lns s' H y t Hy; cbn [get_lits] in H.
  - injection H as <- <-. now left.
  - destruct (get_lit rc l s) as [x s1] eqn:E1. destruct (get_lits rc r s1) as [xs s2] eqn:E2.
    injection H as <- <-. destruct (IH _ _ _ E2 y t Hy) as [H1|H1]; [|now right].
    exact (proj1 (get_lit_S rc _ _ _ _ E1) y t H1).
Qed.

Lemma add_edges_to_S an : forall bs s s', add_edges_to an bs s = Some s' ->
  forall y, sg_label (ls_g s') y = sg_label (ls_g s) y.
Proof.
  induction bs as [|b r IH]; intros s s' H y; cbn [add_edges_to] in H.
  - now injection H as <-.
  - destruct (ls_add_edge an b s) as [s1|] eqn:E1; [|discriminate].
    rewrite (IH _ _ H y). exact (proj1 (ls_add_edge_S _ _ _ _ E1) y).
Qed.

Lemma ls_add_edge_mono a b s s' x z : ls_add_edge a b s = Some s' ->
  In z (sg_out (ls_g s) x) -> In z (sg_out (ls_g s') x).
Proof.
  unfold ls_add_edge. destruct (add_edge a b (ls_g s)) as [g'|] eqn:E; [|discriminate].
  intros H. injection H as <-. cbn [with_g ls_g]. now apply (add_edge_out_mono a b).
Qed.

Lemma add_edges_to_mono an x z : forall bs s s', add_edges_to an bs s = Some s' ->
  In z (sg_out (ls_g s) x) -> In z (sg_out (ls_g s') x).
Proof.
  induction bs as [|b r IH]; intros s s' H Hz; cbn [add_edges_to] in H; [now injection H as <-|].
  destruct (ls_add_edge an b s) as [s1|] eqn:E1; [|discriminate].
  exact (IH _ _ H (ls_add_edge_mono _ _ _ _ _ _ E1 Hz)).
Qed.

Lemma ls_add_edge_lits a b s s' : ls_add_edge a b s = Some s' -> ls_lits s' = ls_lits s.
Proof.
  unfold ls_add_edge. destruct (add_edge a b (ls_g s)) as [g'|]; [|discriminate]. intros H. now injection H as <-.
Qed.
Lemma add_edges_to_lits an : forall bs s s', add_edges_to an bs s = Some s' -> ls_lits s' = ls_lits s.
Proof.
  induction bs as [|b r IH]; intros s s' H; cbn [add_edges_to] in H; [now injection H as <-|].
  destruct (ls_add_edge an b s) as [s1|] eqn:E1; [|discriminate]. rewrite (IH _ _ H). exact (ls_add_edge_lits _ _ _ _ E1).
Qed.
Lemma get_lits_keys : forall ls s lns s', get_lits rc ls s = (lns, s') ->
  forall k z, lookupZ (ls_lits s') k = Some z -> (exists z', lookupZ (ls_lits s) k = Some z') \/ In k ls.
Proof.
  induction ls as [|l r IH]; intros s lns s' H k z Hk; cbn [get_lits] in H.
  - injection H as <- <-. left. now exists z.
  - destruct (get_lit rc l s) as [x s1] eqn:E1. destruct (get_lits rc r s1) as [xs s2] eqn:E2.
    injection H as <- <-. destruct (IH _ _ _ E2 k z Hk) as [[z' Hz']|Hin]; [|right; now right].
    unfold get_lit in E1. destruct (lookupZ (ls_lits s) l) as [x0|] eqn:El.
    + injection E1 as <- <-. left. now exists z'.
    + destruct (add_node rc (GLit l) (ls_g s)) as [x1 g1]. injection E1 as <- <-. cbn [ls_lits] in Hz'.
      rewrite lookupZ_cons in Hz'. destruct (Z.eqb_spec l k) as [->|Hne]; [right; now left|left; now exists z'].
Qed.
Lemma resolve_keys a c fs s1 s2 : resolve_weighted_edge rc a c fs s1 = Some s2 ->
  forall k z, lookupZ (ls_lits s2) k = Some z -> (exists z', lookupZ (ls_lits s1) k = Some z') \/ In k fs.
Proof.
  intros H k z Hk. unfold resolve_weighted_edge in H.
  destruct (get_lits rc fs s1) as [lns s1'] eqn:El.
  destruct lns as [|ln0 lns'].
  - injection H as <-. exact (get_lits_keys _ _ _ _ El k z Hk).
  - destruct (add_node rc GAnd (ls_g s1')) as [an g2] eqn:Ha.
    destruct (ls_add_edge a an (with_g s1' (remove_edge a c g2))) as [s3|] eqn:E3; [|discriminate].
    destruct (add_edges_to an (ln0 :: lns') s3) as [s4|] eqn:E4; [|discriminate].
    rewrite (ls_add_edge_lits _ _ _ _ H), (add_edges_to_lits _ _ _ _ E4), (ls_add_edge_lits _ _ _ _ E3) in Hk.
    cbn [with_g ls_lits] in Hk. exact (get_lits_keys _ _ _ _ El k z Hk).
Qed.

(* a new and node of an edge line is the new child of the source *)
Lemma resolve_S_and a c fs s1 s2 : resolve_weighted_edge rc a c fs s1 = Some s2 ->
  forall y, sg_label (ls_g s2) y = Some GAnd -> sg_label (ls_g s1) y = Some GAnd \/ In y (sg_out (ls_g s2) a).
Proof.
  intros H y Hy. unfold resolve_weighted_edge in H.
  destruct (get_lits rc fs s1) as [lns s1'] eqn:El.
  pose proof (get_lits_S fs s1 lns s1' El) as Hl.
  destruct lns as [|ln0 lns'].
  - injection H as <-. destruct (Hl y _ Hy) as [H1|[l H1]]; [now left|discriminate].
  - destruct (add_node rc GAnd (ls_g s1')) as [an g2] eqn:Ha.
    destruct (ls_add_edge a an (with_g s1' (remove_edge a c g2))) as [s3|] eqn:E3; [|discriminate].
    destruct (add_edges_to an (ln0 :: lns') s3) as [s4|] eqn:E4; [|discriminate].
    pose proof Hy as Hy'.
    rewrite (proj1 (ls_add_edge_S _ _ _ _ H) y), (add_edges_to_S _ _ _ _ E4 y), (proj1 (ls_add_edge_S _ _ _ _ E3) y) in Hy'.
    cbn [with_g ls_g] in Hy'. rewrite remove_edge_label in Hy'.
    destruct (add_node_label_cases rc _ _ _ _ _ _ Ha Hy') as [[-> _]|[_ H0]].
    + right. apply (ls_add_edge_mono _ _ _ _ _ _ H), (add_edges_to_mono _ _ _ _ _ _ E4).
      unfold ls_add_edge in E3. destruct (add_edge a an _) as [g3|] eqn:E; [|discriminate]. injection E3 as <-.
      cbn [with_g ls_g]. rewrite (add_edge_out_same a an _ _ E). now left.
    + destruct (Hl y _ H0) as [H1|[l H1]]; [now left|discriminate].
Qed.

Lemma resolve_S a c fs s1 s2 : resolve_weighted_edge rc a c fs s1 = Some s2 ->
  forall y t, sg_label (ls_g s2) y = Some t -> sg_label (ls_g s1) y = Some t \/ is_litk t \/ t = GAnd.
Proof.
  intros H y t Hy. unfold resolve_weighted_edge in H.
  destruct (get_lits rc fs s1) as [lns s1'] eqn:El.
  pose proof (get_lits_S fs s1 lns s1' El) as Hl.
  destruct lns as [|ln0 lns'].
  - injection H as <-. destruct (Hl y t Hy) as [H1|H1]; auto.
  - destruct (add_node rc GAnd (ls_g s1')) as [an g2] eqn:Ha.
    destruct (ls_add_edge a an (with_g s1' (remove_edge a c g2))) as [s3|] eqn:E3; [|discriminate].
    destruct (add_edges_to an (ln0 :: lns') s3) as [s4|] eqn:E4; [|discriminate].
    rewrite (proj1 (ls_add_edge_S _ _ _ _ H) y), (add_edges_to_S _ _ _ _ E4 y), (proj1 (ls_add_edge_S _ _ _ _ E3) y) in Hy.
    cbn [with_g ls_g] in Hy. rewrite remove_edge_label in Hy.
    destruct (add_node_label_cases rc _ _ _ _ _ _ Ha Hy) as [[_ ->]|[_ H0]]; [now right; right|].
    destruct (Hl y t H0) as [H1|H1]; auto.
Qed.

Lemma idx_get_spec idx i a : idx_get idx i = Some a ->
  (0 < i)%Z /\ 1 <= Z.to_nat i /\ nth_error idx (Z.to_nat i - 1) = Some a.
Proof.
  unfold idx_get. destruct (Z.ltb_spec 0 i) as [H|H]; [|discriminate]. intros E. split; [exact H|]. split; [lia|exact E].
Qed.

(* ---------- an edge line ---------- *)
Lemma rep_edge n0 done b from to fs b' : rep P st n0 done b -> Forall P fs ->
  (exists r, d4_decls all = d4_decls done ++ r) -> (st = true -> gate_from from) ->
  d4_line rc b (DEdge from to fs) = Some b' -> rep P st n0 (done ++ [DEdge from to fs]) b'.
Proof.
  intros HR Hnz [rest Hrest] Hgf H. cbn [d4_line] in H.
  destruct (idx_get (bs_idx b) from) as [a|] eqn:Ea; [|discriminate].
  destruct (idx_get (bs_idx b) to) as [c|] eqn:Ec; [|discriminate].
  destruct (ls_add_edge a c (bs_ls b)) as [s1|] eqn:E1; [|discriminate].
  destruct (resolve_weighted_edge rc a c fs s1) as [s2|] eqn:E2; [|discriminate].
  injection H as <-.
  pose proof HR as [Hc Htri Hnd Hdecl Hedges Hrange Htot Hfirst Hempty Hclass Hocc Hlits Hexp Hndo].
  assert (Hga : st = true -> gate_at (ls_g (bs_ls b)) a).
  { intros Hst. destruct (Hgf Hst) as [k [Hk Hkg]].
    unfold idx_get in Ea. destruct (0 <? from)%Z; [|discriminate].
    destruct (Forall2_nth_error _ _ _ _ _ Hdecl Ea) as [k' [Hk' Hlk]].
    rewrite Hrest, nth_error_app1 in Hk by (apply nth_error_Some; congruence).
    assert (k' = k) by congruence. subst k'. exists (tid_of_kind k). split; [exact Hlk|].
    destruct Hkg as [-> | ->]; reflexivity. }
  destruct (resolve_spec a c fs (bs_ls b) s1 s2 Hc Hnz Hga E1 E2) as [Hc2 [Ht2 [He [y [Hoa Hy]]]]].
  destruct (idx_get_spec _ _ _ Ea) as [Hf0 [Hf1 Hfa]].
  destruct (idx_get_spec _ _ _ Ec) as [Ht0 [Ht1 Htc]].
  set (p := Z.to_nat from - 1) in *.
  assert (Hfrom : from = Z.of_nat (S p)) by (unfold p; lia).
  assert (Hain : In a (bs_idx b)) by (now apply nth_error_In in Hfa).
  assert (HD : forall z, In z [a] -> In z (bs_idx b)) by (intros z [<-|[]]; exact Hain).
  assert (Htrans : forall e y', edge_rep (ls_g (bs_ls b)) (bs_idx b) e y' -> edge_rep (ls_g s2) (bs_idx b) e y').
  { intros e y'. apply (edge_rep_ext _ _ _ _ [a] e y' He HD); [auto|]. intros z Hz. now left. }
  constructor; cbn [bs_ls bs_idx bs_occ bs_total].
  - exact Hc2.
  - congruence.
  - exact Hnd.
  - rewrite d4_decls_app. unfold d4_decls at 2. cbn [flat_map d4_kind]. rewrite app_nil_r.
    eapply Forall2_impl; [|exact Hdecl]. intros k z Hz. exact (ext_label_some _ _ _ _ _ He Hz).
  - intros i x Hi. rewrite d4_edges_from_app. unfold d4_edges_from at 2. cbn [flat_map d4_edge_of]. rewrite app_nil_r.
    assert (Hxa : sg_alive (ls_g (bs_ls b)) x = true) by (apply (idx_alive _ _ _ _ _ _ HR); now apply nth_error_In in Hi).
    destruct (Nat.eq_dec i p) as [->|Hip].
    + assert (x = a) as -> by congruence.
      rewrite Hfrom, Z.eqb_refl, rev_app_distr. cbn [rev app]. rewrite Hoa.
      constructor; [|eapply Forall2_impl; [exact Htrans|exact (Hedges p a Hi)]].
      exists c. cbn [fst snd]. split; [exact Ht1|]. split; [exact Htc|].
      destruct Hy as [[-> ->]|[Hfs [Hyd Hexpn]]]; [left; now split|]. right. split; [exact Hfs|]. split; [|exact Hexpn].
      intros Hin. rewrite (idx_alive _ _ _ _ _ _ HR Hin) in Hyd. discriminate.
    + assert (Hne : (from =? Z.of_nat (S i))%Z = false) by (apply Z.eqb_neq; lia).
      rewrite Hne, app_nil_r.
      assert (Hxne : x <> a).
      { intros ->. apply Hip. apply (proj1 (NoDup_nth_error (bs_idx b)) Hnd i p); [|congruence].
        apply nth_error_Some. congruence. }
      rewrite (ex_out _ _ _ He x Hxa) by (intros [E|[]]; congruence).
      eapply Forall2_impl; [exact Htrans|exact (Hedges i x Hi)].
  - intros i Hi. rewrite d4_edges_from_app. unfold d4_edges_from at 2. cbn [flat_map d4_edge_of]. rewrite app_nil_r.
    assert (Hp : p < length (bs_idx b)) by (apply nth_error_Some; congruence).
    assert (Hne : (from =? Z.of_nat (S i))%Z = false) by (apply Z.eqb_neq; lia).
    rewrite Hne, app_nil_r. now apply Hrange.
  - rewrite d4_maxvar_snoc, fold_left_max, Htot. cbn [d4_token_max]. lia.
  - exact Hfirst.
  - intros E. rewrite E in Hfa. destruct (Z.to_nat from - 1); discriminate.
  - intros z tz Hz. destruct (resolve_S _ _ _ _ _ E2 z tz Hz) as [H1|H1]; [|now right].
    rewrite (proj1 (ls_add_edge_S _ _ _ _ E1) z) in H1. now apply Hclass.
  - intros f. rewrite in_app_iff, Hocc. split.
    + intros [Hf|[from' [to' [fs' [Hin Hf]]]]].
      * exists from, to, fs. split; [apply in_or_app; right; now left|exact Hf].
      * exists from', to', fs'. split; [apply in_or_app; now left|exact Hf].
    + intros [from' [to' [fs' [Hin Hf]]]]. apply in_app_or in Hin. destruct Hin as [Hin|[E|[]]].
      * right. now exists from', to', fs'.
      * injection E as <- <- <-. now left.
  - intros k z Hk. apply in_or_app. destruct (resolve_keys _ _ _ _ _ E2 k z Hk) as [[z' Hz']|Hin].
    + right. rewrite (ls_add_edge_lits _ _ _ _ E1) in Hz'. exact (Hlits k z' Hz').
    + left. apply in_map_iff. now exists k.
  - intros z Hz Hzn.
    assert (Hold : sg_label (ls_g (bs_ls b)) z = Some GAnd ->
                   exists i e tx, In e (d4_edges_from (done ++ [DEdge from to fs]) i) /\ fst e <> [] /\ 1 <= snd e /\
                                  nth_error (bs_idx b) (snd e - 1) = Some tx /\ exp_node (ls_g s2) z (fst e) tx).
    { intros H0. destruct (Hexp z H0 Hzn) as [i [e [tx [He1 [He2 [He3 [He4 He5]]]]]]].
      exists i, e, tx. split; [rewrite d4_edges_from_app; apply in_or_app; now left|]. split; [exact He2|]. split; [exact He3|].
      split; [exact He4|]. apply (exp_node_ext _ _ [a] _ _ _ He); [|exact He5]. intros [<-|[]]. now apply Hzn. }
    destruct (resolve_S_and _ _ _ _ _ E2 z Hz) as [H1|H1].
    + rewrite (proj1 (ls_add_edge_S _ _ _ _ E1) z) in H1. now apply Hold.
    + rewrite Hoa in H1. destruct H1 as [<-|H1].
      * destruct Hy as [[_ ->]|[Hfs [_ Hexpy]]]; [exfalso; apply Hzn; now apply nth_error_In in Htc|].
        exists (S p), (fs, Z.to_nat to), c. split.
        -- rewrite d4_edges_from_app. apply in_or_app. right. unfold d4_edges_from. cbn [flat_map d4_edge_of].
           rewrite Hfrom, Z.eqb_refl. now left.
        -- cbn [fst snd]. split; [exact Hfs|]. split; [exact Ht1|]. split; [exact Htc|exact Hexpy].
      * apply Hold. rewrite <- (ex_label _ _ _ He z); [exact Hz|].
        exact (proj2 (out_alive _ _ _ (proj1 (co_inv _ _ _ Hc)) H1)).
  - intros i x Hi Hnd'. rewrite d4_edges_from_app in Hnd'. unfold d4_edges_from at 2 in Hnd'.
    cbn [flat_map d4_edge_of] in Hnd'. rewrite app_nil_r in Hnd'.
    assert (Hxa : sg_alive (ls_g (bs_ls b)) x = true) by (apply (idx_alive _ _ _ _ _ _ HR); now apply nth_error_In in Hi).
    destruct (Nat.eq_dec i p) as [->|Hip].
    + assert (x = a) as -> by congruence.
      rewrite Hfrom, Z.eqb_refl, filter_app, map_app in Hnd'. rewrite Hoa.
      pose proof (Hndo p a Hi (NoDup_app_l _ _ Hnd')) as Hold.
      constructor; [|exact Hold]. intros Hyin.
      destruct Hy as [[-> ->]|[Hfs [Hyd _]]].
      * destruct (Forall2_In_r _ _ _ _ (Hedges p a Hi) Hyin) as [e' [He' [tx [Hs1 [Htx Hcase]]]]].
        destruct Hcase as [[Hnil ->]|[_ [Hnin _]]]; [|apply Hnin; now apply nth_error_In in Htc].
        assert (Hsame : snd e' - 1 = Z.to_nat to - 1).
        { apply (proj1 (NoDup_nth_error (bs_idx b)) Hnd); [apply nth_error_Some; congruence|congruence]. }
        cbn [filter unl fst map snd app] in Hnd'. apply NoDup_remove_2 in Hnd'. apply Hnd'. rewrite app_nil_r.
        apply in_map_iff. exists e'. split; [lia|]. apply filter_In. split; [now apply in_rev|].
        unfold unl. now rewrite Hnil.
      * rewrite (proj2 (out_alive _ _ _ (proj1 (co_inv _ _ _ Hc)) Hyin)) in Hyd. discriminate.
    + assert (Hne : (from =? Z.of_nat (S i))%Z = false) by (apply Z.eqb_neq; lia).
      rewrite Hne, app_nil_r in Hnd'.
      assert (Hxne : x <> a).
      { intros ->. apply Hip. apply (proj1 (NoDup_nth_error (bs_idx b)) Hnd i p); [|congruence].
        apply nth_error_Some. congruence. }
      rewrite (ex_out _ _ _ He x Hxa) by (intros [E|[]]; congruence). exact (Hndo i x Hi Hnd').
Qed.

(* ---------- the whole file ---------- *)
Lemma rep_line n0 done b t b' : rep P st n0 done b ->
  (forall from to fs, t = DEdge from to fs -> Forall P fs /\ (st = true -> gate_from from)) ->
  (exists r, d4_decls all = d4_decls done ++ r) ->
  d4_line rc b t = Some b' -> rep P st n0 (done ++ [t]) b'.
Proof.
  intros HR Hnz Hpre H. destruct t as [from to fs| | | |].
  - apply (rep_edge n0 done b from to fs b' HR (proj1 (Hnz _ _ _ eq_refl)) Hpre (proj2 (Hnz _ _ _ eq_refl)) H).
  - cbn [d4_line] in H. injection H as <-. now apply (rep_decl n0 done b DOr KOr).
  - cbn [d4_line] in H. injection H as <-. now apply (rep_decl n0 done b DAnd KAnd).
  - cbn [d4_line] in H. injection H as <-. now apply (rep_decl n0 done b DTrue KTrue).
  - cbn [d4_line] in H. injection H as <-. now apply (rep_decl n0 done b DFalse KFalse).
Qed.

Lemma rep_lines n0 : forall toks done b b', rep P st n0 done b -> done ++ toks = all ->
  (forall from to fs, In (DEdge from to fs) toks -> Forall P fs /\ (st = true -> gate_from from)) ->
  d4_lines rc b toks = Some b' -> rep P st n0 (done ++ toks) b'.
Proof.
  induction toks as [|t r IH]; intros done b b' HR Hall Hnz H; cbn [d4_lines] in H.
  - injection H as <-. now rewrite app_nil_r.
  - destruct (d4_line rc b t) as [b1|] eqn:E; [|discriminate].
    replace (done ++ t :: r) with ((done ++ [t]) ++ r) in * by now rewrite <- app_assoc.
    apply (IH (done ++ [t]) b1 b'); [|exact Hall|intros from to fs Hin; apply (Hnz from to fs); now right|exact H].
    apply (rep_line n0 done b t b1 HR); [| |exact E].
    + intros from to fs ->. apply (Hnz from to fs). now left.
    + exists (d4_decls ([t] ++ r)). now rewrite <- Hall, <- app_assoc, d4_decls_app.
Qed.

Lemma rep_init n0 : rep P st n0 [] (mkBS (mkLS sg_empty [] []) [] [] n0).
Proof.
  constructor; cbn [bs_ls bs_idx bs_total ls_g ls_lits ls_tri].
  - constructor; cbn [ls_g ls_lits]; [apply Inv_empty|discriminate| | |intros _ a b []];
      intros z l Hz; unfold sg_label in Hz; cbn in Hz; destruct z; discriminate.
  - reflexivity.
  - constructor.
  - constructor.
  - intros i x Hi. destruct i; discriminate.
  - reflexivity.
  - cbn. lia.
  - intros x Hx. discriminate.
  - reflexivity.
  - intros y t Hy. unfold sg_label in Hy. cbn in Hy. destruct y; discriminate.
  - intros f. cbn. split; [intros []|intros [from [to [fs [[] _]]]]].
  - intros k z Hk. discriminate.
  - intros y Hy. unfold sg_label in Hy. cbn in Hy. destruct y; discriminate.
  - intros i x Hi. destruct i; discriminate.
Qed.
End Parse.
