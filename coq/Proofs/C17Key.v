(* C17 / F19 (finding K12): which requests share a cursor.  Model/Cursor.v is stated over abstract
   keys; the key of a request with the assumption list A is [enum_key A] (Model/Enumerate.v: the
   list sorted by feature with repeated literals removed, what Ddnnf::enumerate uses since F19).
   For consistent lists that is the SET of literals (C06Sort.enum_key_same_set), so all spellings of
   one set are requests with ONE key and the cycle theorems of Proofs/CursorCycle.v apply to them
   together.  Before F19 the key was [sort_abs A], which keeps repeated literals: witness below. *)
From Coq Require Import List ZArith Bool Arith Permutation Lia.
From DD Require Import Model.Circuit Model.Query Model.Enumerate Model.Cursor
  Proofs.C06Sort Proofs.Cursor Proofs.CursorCycle.
Import ListNotations.
Close Scope Z_scope. Open Scope nat_scope.

(* an enumeration request as the library receives it: (assumption list, amount) *)
Definition req_of (q : cfg * nat) : request := mkReq (enum_key (fst q)) (snd q).
(* the code before F19 *)
Definition req_of_v0 (q : cfg * nat) : request := mkReq (sort_abs (fst q)) (snd q).

Theorem req_key_is_set A q : consistent A -> same_set A (fst q) -> rkey (req_of q) = enum_key A.
Proof. intros HC HS. cbn [req_of rkey]. symmetry. now apply enum_key_same_set. Qed.

Lemma same_set_on_key A q : consistent A -> same_set A (fst q) ->
  on_key (enum_key A) (req_of q) = true.
Proof.
  intros HC HS. unfold on_key. rewrite (req_key_is_set A q HC HS).
  unfold key_eqb. destruct (list_eq_dec Z.eq_dec (enum_key A) (enum_key A)); congruence.
Qed.

(* sequential requests for one SET, spelled in any way, starting at cursor 0: the pages walk through
   ONE cycle (statement of disjoint_within_cycle for the key of the set) *)
Theorem same_set_one_cycle : forall (cnt : key -> nat) A (qs : list (cfg * nat)) (cur0 : Cursor.cursor),
  consistent A -> 0 < cnt (enum_key A) -> cur0 (enum_key A) = 0 ->
  (forall q, In q qs -> same_set A (fst q) /\ 0 < snd q) ->
  let c := cnt (enum_key A) in
  let pages := seq_run cnt cur0 (map req_of qs) in
  let T := length (concat pages) in
  concat pages = cyc c T /\
  (forall n, length (concat (firstn n pages)) <= c -> NoDup (concat (firstn n pages))) /\
  (forall j, j < c -> count_occ Nat.eq_dec (concat pages) j = T / c + (if j <? T mod c then 1 else 0)) /\
  (forall p, In p pages -> p <> []).
Proof.
  intros cnt A qs cur0 HC Hc H0 Hqs.
  apply (disjoint_within_cycle cnt (enum_key A) (map req_of qs) cur0 Hc H0).
  intros r Hr. apply in_map_iff in Hr. destruct Hr as (q & <- & Hq).
  destruct (Hqs q Hq) as [HS Ha]. split; [now apply req_key_is_set|exact Ha].
Qed.

(* concurrent runs of the repaired protocol in which EVERY request is a spelling of the set A: the
   answers in reserve order are one walk through the cycle; no configuration twice while at most
   count(A) were handed out *)
Theorem same_set_concurrent : forall (cnt : key -> nat) A (qs : list (cfg * nat)) (cur0 : Cursor.cursor) es st,
  let reqs := map req_of qs in
  consistent A -> (forall q, In q qs -> same_set A (fst q) /\ 0 < snd q) ->
  r_run cnt reqs (r_init cur0 reqs) es st -> r_complete st = true ->
  0 < cnt (enum_key A) -> cur0 (enum_key A) = 0 ->
  let mine := fun i => on_key (enum_key A) (nth i reqs dreq) in
  (forall i, i < length reqs -> mine i = true) /\
  let in_reserve_order := select [] (r_answers st) (filter mine (reserve_order es)) in
  let in_request_order := select [] (r_answers st) (filter mine (seq 0 (length reqs))) in
  let T := length (concat in_request_order) in
  concat in_reserve_order = cyc (cnt (enum_key A)) T /\
  Permutation (concat in_request_order) (cyc (cnt (enum_key A)) T) /\
  (T <= cnt (enum_key A) -> NoDup (concat in_request_order)).
Proof.
  intros cnt A qs cur0 es st reqs HC Hqs Hrun Hcomp Hc H0 mine. split.
  - intros i Hi. unfold mine, reqs in *. rewrite map_length in Hi.
    rewrite (nth_indep _ dreq (req_of (nth i qs ([], 0)))) by (now rewrite map_length).
    rewrite map_nth. apply same_set_on_key; [exact HC|]. apply Hqs. now apply nth_In.
  - assert (Ham : forall r, In r reqs -> 0 < ramount r).
    { intros r Hr. unfold reqs in Hr. apply in_map_iff in Hr. destruct Hr as (q & <- & Hq).
      apply Hqs. exact Hq. }
    destruct (concurrent_cycle cnt reqs cur0 es st (enum_key A) Hrun Hcomp Hc H0 Ham)
      as (H1 & H2 & H3 & _).
    split; [exact H1|]. split; [exact H2|exact H3].
Qed.

(* finding K12, the code before F19: `enum a 1` and `enum a 1 1` (4 configurations contain 1, two
   requested each time) are the same set but two keys; both requests get [0; 1].  With the key of
   F19 the second request continues: [2; 3]. *)
Theorem key_v0_refuted : exists (cnt : key -> nat) (qs : list (cfg * nat)),
  (forall q, In q qs -> same_set [1%Z] (fst q) /\ 0 < snd q) /\ consistent [1%Z] /\
  seq_run cnt (fun _ => 0) (map req_of_v0 qs) = [[0; 1]; [0; 1]] /\
  ~ NoDup (concat (seq_run cnt (fun _ => 0) (map req_of_v0 qs))) /\
  seq_run cnt (fun _ => 0) (map req_of qs) = [[0; 1]; [2; 3]].
Proof.
  exists (fun _ => 4), [([1%Z], 2); ([1%Z; 1%Z], 2)].
  split; [|split; [|split; [|split]]].
  - intros q [<-|[<-|[]]]; cbn [fst snd]; (split; [intros l; cbn [In]; tauto|lia]).
  - intros x y [<-|[]] [<-|[]] _. reflexivity.
  - vm_compute. reflexivity.
  - vm_compute. intros H. inversion H as [|? ? Hn _]. apply Hn. right. now left.
  - vm_compute. reflexivity.
Qed.
