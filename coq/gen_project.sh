#!/bin/sh
# regenerates _CoqProject from the files on disk and the Makefile from it
cd "$(dirname "$0")"
{ echo "-Q . DD"; echo "-arg -w -arg -deprecated-hint-without-locality,-deprecated"; ls Model/*.v Spec/*.v Proofs/*.v Props/*.v Extract.v 2>/dev/null; } > _CoqProject
coq_makefile -f _CoqProject -o Makefile >/dev/null
