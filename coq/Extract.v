(* Extraction of the executable model and of the spec oracles to OCaml.
   Only ExtrOcamlBasic is used (bool, option, list, prod, unit, sumbool -> OCaml's);
   nat, positive, N, Z, ascii, string stay Coq datatypes; there is no Extract Constant. *)
From Coq Require Import ExtrOcamlBasic.
From Coq Require Import List ZArith String DecimalString DecimalZ.
From DD Require Import Model.Circuit.
From DD Require Import Model.Optimal.

Definition z_to_string (z : Z) : string := NilEmpty.string_of_int (Z.to_int z).
Definition z_of_string (s : string) : option Z :=
  option_map Z.of_int (NilEmpty.int_of_string s).

Extraction "../ocaml/model.ml"
  z_to_string z_of_string
  counts root_count evals eval_root enums enum_root varss
  all_cfgs canon canon_cfg asg_of Models MC ModelsA MCA contains_all
  check_wf idx_ok decomposable smooth complete det_cert unique_leaves no_dead no_true_false
  lits_nonzero all_reachable
  cval calc_best_config calc_top_k_configs calc_top_k_configs_v0_release calc_top_k_configs_v0_debug pick_first is_topk is_best sorted_desc.
