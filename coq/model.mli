
type __ = Obj.t

val negb : bool -> bool

type nat =
| O
| S of nat

val option_map : ('a1 -> 'a2) -> 'a1 option -> 'a2 option

val length : 'a1 list -> nat

val app : 'a1 list -> 'a1 list -> 'a1 list

type comparison =
| Eq
| Lt
| Gt

val compOpp : comparison -> comparison

val id : __ -> __

type uint =
| Nil
| D0 of uint
| D1 of uint
| D2 of uint
| D3 of uint
| D4 of uint
| D5 of uint
| D6 of uint
| D7 of uint
| D8 of uint
| D9 of uint

type signed_int =
| Pos of uint
| Neg of uint

val revapp : uint -> uint -> uint

val rev : uint -> uint

module Little :
 sig
  val double : uint -> uint

  val succ_double : uint -> uint
 end

val sub : nat -> nat -> nat

val eqb : bool -> bool -> bool

module Nat :
 sig
  val eqb : nat -> nat -> bool

  val leb : nat -> nat -> bool

  val ltb : nat -> nat -> bool
 end

val nth : nat -> 'a1 list -> 'a1 -> 'a1

val last : 'a1 list -> 'a1 -> 'a1

val rev0 : 'a1 list -> 'a1 list

val concat : 'a1 list list -> 'a1 list

val map : ('a1 -> 'a2) -> 'a1 list -> 'a2 list

val flat_map : ('a1 -> 'a2 list) -> 'a1 list -> 'a2 list

val fold_left : ('a1 -> 'a2 -> 'a1) -> 'a2 list -> 'a1 -> 'a1

val fold_right : ('a2 -> 'a1 -> 'a1) -> 'a1 -> 'a2 list -> 'a1

val existsb : ('a1 -> bool) -> 'a1 list -> bool

val forallb : ('a1 -> bool) -> 'a1 list -> bool

val filter : ('a1 -> bool) -> 'a1 list -> 'a1 list

val seq : nat -> nat -> nat list

type positive =
| XI of positive
| XO of positive
| XH

type n =
| N0
| Npos of positive

type z =
| Z0
| Zpos of positive
| Zneg of positive

module Pos :
 sig
  val succ : positive -> positive

  val add : positive -> positive -> positive

  val add_carry : positive -> positive -> positive

  val pred_double : positive -> positive

  val mul : positive -> positive -> positive

  val compare_cont : comparison -> positive -> positive -> comparison

  val compare : positive -> positive -> comparison

  val eqb : positive -> positive -> bool

  val of_succ_nat : nat -> positive

  val of_uint_acc : uint -> positive -> positive

  val of_uint : uint -> n

  val to_little_uint : positive -> uint

  val to_uint : positive -> uint
 end

module Z :
 sig
  val double : z -> z

  val succ_double : z -> z

  val pred_double : z -> z

  val pos_sub : positive -> positive -> z

  val add : z -> z -> z

  val opp : z -> z

  val mul : z -> z -> z

  val compare : z -> z -> comparison

  val ltb : z -> z -> bool

  val eqb : z -> z -> bool

  val abs : z -> z

  val of_nat : nat -> z

  val of_N : n -> z

  val of_uint : uint -> z

  val of_int : signed_int -> z

  val to_int : z -> signed_int
 end

type ascii =
| Ascii of bool * bool * bool * bool * bool * bool * bool * bool

val eqb0 : ascii -> ascii -> bool

type string =
| EmptyString
| String of ascii * string

val uint_of_char : ascii -> uint option -> uint option

module NilEmpty :
 sig
  val string_of_uint : uint -> string

  val uint_of_string : string -> uint option

  val string_of_int : signed_int -> string

  val int_of_string : string -> signed_int option
 end

type ntype =
| Lit of z
| And of nat list
| Or of nat list
| TrueN
| FalseN

val pass : ('a1 list -> ntype -> 'a1) -> ntype list -> 'a1 list

val zprod : z list -> z

val zsum : z list -> z

val count_node : z list -> ntype -> z

val counts : ntype list -> z list

val root_count : ntype list -> z

val lit_true : (z -> bool) -> z -> bool

val eval_node : (z -> bool) -> bool list -> ntype -> bool

val evals : (z -> bool) -> ntype list -> bool list

val eval_root : (z -> bool) -> ntype list -> bool

val prod : z list list list -> z list list

val enum_node : z list list list -> ntype -> z list list

val enums : ntype list -> z list list list

val enum_root : ntype list -> z list list

val vars_node : z list list -> ntype -> z list

val varss : ntype list -> z list list

val memZ : z -> z list -> bool

val zseq : z -> nat -> z list

val all_cfgs_over : z list -> z list list

val all_cfgs : nat -> z list list

val asg_of : z list -> z -> bool

val canon : nat -> (z -> bool) -> z list

val canon_cfg : nat -> z list -> z list

val models : ntype list -> nat -> z list list

val mC : ntype list -> nat -> z

val contains_all : z list -> z list -> bool

val modelsA : ntype list -> nat -> z list -> z list list

val mCA : ntype list -> nat -> z list -> z

val children : ntype -> nat list

val idx_ok_from : nat -> ntype list -> bool

val idx_ok : ntype list -> bool

val disjointb : z list -> z list -> bool

val inclb : z list -> z list -> bool

val pairwise : ('a1 -> 'a1 -> bool) -> 'a1 list -> bool

val decomposable_node : z list list -> ntype -> bool

val smooth_node : z list list -> ntype -> bool

val decomposable : ntype list -> bool

val smooth : ntype list -> bool

val complete : ntype list -> nat -> bool

val interZ : z list -> z list -> z list

val forced_node : z list list -> ntype -> z list

val forceds : ntype list -> z list list

val conflictb : z list -> z list -> bool

val det_cert_node : z list -> z list list -> ntype -> bool

val det_cert : ntype list -> bool

val lits_of : ntype list -> z list

val nodupb : z list -> bool

val unique_leaves : ntype list -> bool

val no_dead : ntype list -> bool

val no_true_false : ntype list -> bool

val lits_nonzero : ntype list -> bool

val has_parent : ntype list -> nat -> bool

val all_reachable : ntype list -> bool

val check_wf : ntype list -> nat -> bool

val z_to_string : z -> string

val z_of_string : string -> z option
