(* C10 save / reload.
   (i)   DIFF  write_c2d (extracted) of the dumped vector = the bytes write_ddnnf_to_file wrote
   (ii)  DIFF  load_c2d (extracted) of the lexed saved text = the vector the implementation
               got when it loaded the written file; check_wf accepts the reloaded vector
   (iii) VIOL  oracle, independent of the model's lexer/loader: the saved text evaluated as a c2d
               file (small evaluator below) has the truth table of the original vector
               (Model.models) and of the source formula; the file read as a circuit in file
               order is accepted by check_wf whenever the original vector is
   (iv)  VIOL  every recorded answer of the reloaded model equals the original model's answer *)
open Blocks

let int_n b = match find b "n" with Some [n] -> int_of_string n | _ -> failwith "no n"

let mask_of_cfg (m : Model.z list) : int =
  List.fold_left (fun acc l -> let v = Conv.int_of_z l in if v > 0 then acc lor (1 lsl (v - 1)) else acc) 0 m

(* ---------- independent reading of a c2d text ---------- *)
exception Malformed of string

type fnode = FL of int | FA of int list | FO of int list

let parse_c2d_text (lines : string list) : int * fnode array =
  match lines with
  | [] -> raise (Malformed "empty file")
  | h :: body ->
    let n = match split_ws h with
      | ["nnf"; _; _; n] -> int_of_string n
      | _ -> raise (Malformed ("header: " ^ h)) in
    let node i l =
      let ints xs = List.map (fun x ->
          let v = try int_of_string x with _ -> raise (Malformed ("number: " ^ l)) in
          if v < 0 || v >= i then raise (Malformed (Printf.sprintf "line %d refers to %d" i v)); v) xs in
      match split_ws l with
      | ["L"; x] -> let v = (try int_of_string x with _ -> raise (Malformed l)) in
        if v = 0 then raise (Malformed "literal 0"); FL v
      | "A" :: k :: cs ->
        if int_of_string k <> List.length cs then raise (Malformed ("child count: " ^ l));
        FA (ints cs)
      | "O" :: _ :: k :: cs ->
        if int_of_string k <> List.length cs then raise (Malformed ("child count: " ^ l));
        FO (ints cs)
      | _ -> raise (Malformed ("line: " ^ l)) in
    (n, Array.of_list (List.mapi node body))

let eval_file (nodes : fnode array) (mask : int) : bool =
  let k = Array.length nodes in
  if k = 0 then raise (Malformed "no nodes");
  let v = Array.make k false in
  Array.iteri (fun i nd ->
      v.(i) <- (match nd with
          | FL l -> let b = (mask lsr (abs l - 1)) land 1 = 1 in if l > 0 then b else not b
          | FA cs -> List.for_all (fun c -> v.(c)) cs
          | FO cs -> List.exists (fun c -> v.(c)) cs)) nodes;
  v.(k - 1)

let table_of_file nodes n =
  let r = ref [] in
  for m = (1 lsl n) - 1 downto 0 do if eval_file nodes m then r := m :: !r done;
  !r

let circuit_of_file (nodes : fnode array) : Model.ntype list =
  List.map (function
      | FL l -> Model.Lit (Conv.z_of_int l)
      | FA [] -> Model.TrueN
      | FO [] -> Model.FalseN
      | FA cs -> Model.And (List.map Conv.nat_of_int cs)
      | FO cs -> Model.Or (List.map Conv.nat_of_int cs)) (Array.to_list nodes)

let show_node = function
  | Model.Lit l -> "L " ^ string_of_int (Conv.int_of_z l)
  | Model.And cs -> String.concat " " ("A" :: List.map (fun c -> string_of_int (Conv.int_of_nat c)) cs)
  | Model.Or cs -> String.concat " " ("O" :: List.map (fun c -> string_of_int (Conv.int_of_nat c)) cs)
  | Model.TrueN -> "T"
  | Model.FalseN -> "F"
let show_circuit c = String.concat " / " (List.map show_node c)

let wf_failed c n =
  let parts = [ "idx_ok", Model.idx_ok c; "decomposable", Model.decomposable c;
                "smooth", Model.smooth c; "complete", Model.complete c (Conv.nat_of_int n);
                "det_cert", Model.det_cert c; "unique_leaves", Model.unique_leaves c;
                "lits_nonzero", Model.lits_nonzero c; "all_reachable", Model.all_reachable c ] in
  String.concat "," (List.filter_map (fun (k, v) -> if v then None else Some k) parts)

let shape_stats (c : Model.ntype list) n =
  if List.exists (function Model.TrueN -> true | _ -> false) c then bump "shape_true_node";
  if List.exists (function Model.FalseN -> true | _ -> false) c then bump "shape_false_node";
  if List.exists (function Model.Or cs -> List.length cs > 2 | _ -> false) c then bump "shape_nary_or";
  if List.exists (function Model.Or [_] | Model.And [_] -> true | _ -> false) c then bump "shape_single_child";
  if List.length c >= 11 then bump "shape_multi_digit_index";
  let mentioned = List.sort_uniq compare (List.filter_map (function Model.Lit l -> Some (abs (Conv.int_of_z l)) | _ -> None) c) in
  ignore n; ignore mentioned

let check (b : block) : verdict list =
  let out = ref [] in
  let add v = out := v :: !out in
  (match impl_all b "panic" with
   | [] -> ()
   | ps -> List.iter (fun p ->
       let stage = match p with s :: _ -> s | [] -> "?" in
       add (Viol (stage ^ ":panic", "on a well-formed model: " ^ String.concat " " p))) ps);
  let n = int_n b in
  let c = b.circuit in
  (match List.assoc_opt "saved" b.files with
   | None -> if !out = [] then add (Diff ("block", "no saved file in the block"))
   | Some saved ->
     let fmt = (match b.files with (k, _) :: _ -> k | [] -> "?") in
     bump ("input_" ^ fmt);
     shape_stats c n;
     (match find b "info" with
      | Some toks when List.exists (fun t -> String.length t > 6 && String.sub t 0 6 = "extra=" && t <> "extra=0") toks ->
        bump "shape_free_features"
      | _ -> ());
     (* the loader model on the original input when that is a c2d file *)
     (match b.files with
      | ("c2d", orig) :: _ ->
        (match Mdl.LoadC2d.load_c2d_lines (List.map Conv.coq_string orig) with
         | Some (mc, _) when mc = c -> bump "load_c2d_input_equal"
         | Some (mc, _) ->
           add (Diff ("load-vector", Printf.sprintf "c2d input: model [%s] impl [%s]" (show_circuit mc) (show_circuit c)))
         | None -> add (Diff ("load-vector", "the model loader panics on the c2d input")))
      | _ -> ());
     (* (i) writer *)
     let model_lines = List.map Conv.ocaml_string (Mdl.Writer.write_c2d c (Conv.nat_of_int n)) in
     if model_lines <> saved then begin
       let rec first i = function
         | x :: xs, y :: ys -> if x = y then first (i + 1) (xs, ys) else Printf.sprintf "line %d: model %S impl %S" i x y
         | [], y :: _ -> Printf.sprintf "line %d: model has no more lines, impl %S" i y
         | x :: _, [] -> Printf.sprintf "line %d: model %S, impl has no more lines" i x
         | [], [] -> "?" in
       add (Diff ("write", "written text differs from write_c2d of the dumped vector: " ^ first 0 (model_lines, saved)))
     end else bump "write_equal";
     (match impl b "saved_bytes" with
      | Some [len; nl; cr] ->
        let want = String.length (Conv.ocaml_string (Mdl.Writer.file_text (Mdl.Writer.write_c2d c (Conv.nat_of_int n)))) in
        if int_of_string len <> want || nl <> "1" || cr <> "0" then
          add (Diff ("write-bytes", Printf.sprintf "file has %s bytes (newline-terminated=%s, CR=%s), model %d" len nl cr want))
      | _ -> add (Diff ("block", "no saved_bytes line")));
     (* (iii) oracle on the saved text *)
     (try
        let (fn, nodes) = parse_c2d_text saved in
        if fn <> n then
          add (Viol ("save:feature-count", Printf.sprintf "the written header declares %d features, the model has %d" fn n));
        (match impl b "nvars" with
         | Some [nv] when int_of_string nv <> n ->
           add (Diff ("nvars", Printf.sprintf "number_of_variables=%s, case n=%d" nv n))
         | _ -> ());
        if n <= 10 && fn = n then begin
          let file_tt = table_of_file nodes n in
          let vec_tt = List.sort compare (List.map mask_of_cfg (Model.models c (Conv.nat_of_int n))) in
          bump "truth_tables_compared";
          if file_tt <> vec_tt then
            add (Viol ("save:function-changed",
                       Printf.sprintf "the written file denotes another function than the saved model: %d vs %d models"
                         (List.length file_tt) (List.length vec_tt)));
          (match find b "src_models" with
           | Some ms ->
             let src = List.sort compare (List.map int_of_string ms) in
             bump "truth_tables_vs_source";
             if src <> file_tt then
               add (Viol ("save:function-changed",
                          Printf.sprintf "the written file denotes another function than the source formula: %d vs %d models"
                            (List.length file_tt) (List.length src)))
           | None -> ())
        end;
        let fc = circuit_of_file nodes in
        let wf_orig = Model.check_wf c (Conv.nat_of_int n) in
        let wf_file = Model.check_wf fc (Conv.nat_of_int n) in
        if wf_orig then bump "wf_original" ;
        if wf_file then bump "wf_file";
        if wf_orig && not wf_file then
          add (Viol ("save:not-wf", "the written file read as a circuit is rejected by check_wf: " ^ wf_failed fc n));
        if not wf_orig then bump "original_not_wf"
      with
      | Malformed m -> add (Viol ("save:malformed", "the written file is not a c2d file: " ^ m))
      | Failure m -> add (Viol ("save:malformed", "the written file is not a c2d file: " ^ m)));
     (* (ii) loader *)
     let reloaded = List.map (fun t -> parse_node t) (find_all b "node2") in
     (match find b "nodes2" with
      | None -> if impl_all b "panic" = [] then add (Diff ("block", "no reloaded vector in the block"))
      | Some k ->
        if k <> [string_of_int (List.length reloaded)] then add (Diff ("block", "nodes2 count"));
        (match Mdl.LoadC2d.load_c2d_lines (List.map Conv.coq_string saved) with
         | None -> add (Diff ("reload-vector", "the model loader panics on the written text"))
         | Some (mc, mn) ->
           if mc <> reloaded then
             add (Diff ("reload-vector", Printf.sprintf "model [%s] impl [%s]" (show_circuit mc) (show_circuit reloaded)))
           else bump "reload_equal";
           (match impl b "nvars2" with
            | Some [nv] ->
              if int_of_string nv <> Conv.int_of_nat mn then
                add (Diff ("reload-n", Printf.sprintf "model n=%d impl n=%s" (Conv.int_of_nat mn) nv));
              if int_of_string nv <> n then
                add (Viol ("reload:feature-count", Printf.sprintf "reloaded with %s features, saved model has %d" nv n))
            | _ -> add (Diff ("block", "no nvars2"))));
        if Model.check_wf c (Conv.nat_of_int n) then begin
          if not (Model.check_wf reloaded (Conv.nat_of_int n)) then
            add (Diff ("check_wf-reloaded", "reloaded vector rejected by check_wf: " ^ wf_failed reloaded n))
          else bump "wf_reloaded"
        end;
        (* the model's counts on both vectors agree with what was reported *)
        let rc0 = Conv.dec_of_z (Model.root_count c) and rc1 = Conv.dec_of_z (Model.root_count reloaded) in
        (match List.filter_map (function ("q0" :: "rc" :: ":" :: [r]) -> Some r | _ -> None) (find_all b "impl"),
               List.filter_map (function ("q1" :: "rc" :: ":" :: [r]) -> Some r | _ -> None) (find_all b "impl") with
         | [r0], [r1] ->
           if r0 <> rc0 then add (Diff ("rc", Printf.sprintf "original: model %s impl %s" rc0 r0));
           if r1 <> rc1 then add (Diff ("rc", Printf.sprintf "reloaded: model %s impl %s" rc1 r1))
         | _ -> ());
        (* (iv) answers *)
        let q0 = impl_all b "q0" and q1 = impl_all b "q1" in
        if List.length q0 <> List.length q1 || q0 = [] then
          add (Diff ("block", Printf.sprintf "%d original answers, %d reloaded answers" (List.length q0) (List.length q1)))
        else
          List.iter2 (fun a0 a1 ->
              bump "answers_compared";
              (match a0 with k :: _ -> bump ("answers_" ^ k) | [] -> ());
              if List.mem "PANIC" a0 then bump "answers_original_panicked";
              if a0 <> a1 then
                add (Viol ("reload:answers-differ",
                           Printf.sprintf "original [%s] reloaded [%s]" (String.concat " " a0) (String.concat " " a1))))
            q0 q1));
  if !out = [] then [Ok] else List.rev !out

let kinds = ["C10", check]
