(* driver: reads case blocks, runs the extracted model / oracles, prints one verdict per line:
     OK <id>
     VIOL <id> <signature> <message>
     DIFF <id> <what> <message>
   and STAT lines at the end.  Failing blocks are copied to --fail-dir for replay. *)
let checkers = Registry.checkers

let () =
  let file = ref "" and faildir = ref "" in
  Arg.parse [ "--fail-dir", Arg.Set_string faildir, "directory for failing case blocks" ]
    (fun f -> file := f) "driver <cases>";
  let ic = if !file = "" || !file = "-" then stdin else open_in !file in
  let total = ref 0 in
  Blocks.read_blocks ic (fun b ->
      incr total;
      let vs =
        match List.assoc_opt b.Blocks.kind checkers with
        | None -> [Blocks.Diff ("driver", "no checker for kind " ^ b.Blocks.kind)]
        | Some f -> (try f b with e -> [Blocks.Diff ("driver-exception", Printexc.to_string e)])
      in
      let bad = List.exists (function Blocks.Ok -> false | _ -> true) vs in
      List.iter (function
          | Blocks.Ok -> Printf.printf "OK %s\n" b.Blocks.id
          | Blocks.Viol (s, m) -> Printf.printf "VIOL %s %s %s\n" b.Blocks.id s m
          | Blocks.Diff (w, m) -> Printf.printf "DIFF %s %s %s\n" b.Blocks.id w m) vs;
      if bad && !faildir <> "" then begin
        let oc = open_out (Filename.concat !faildir (b.Blocks.id ^ ".case")) in
        List.iter (fun l -> output_string oc l; output_char oc '\n') b.Blocks.raw;
        close_out oc
      end);
  Printf.printf "STAT cases %d\n" !total;
  Hashtbl.iter (fun k v -> Printf.printf "STAT %s %d\n" k v) Blocks.stats
