(* Conversions between OCaml values and the extracted Coq datatypes. *)
let rec nat_of_int (i : int) : Model.nat =
  let rec go acc k = if k <= 0 then acc else go (Model.S acc) (k - 1) in
  go Model.O i

let int_of_nat (n : Model.nat) : int =
  let rec go acc = function Model.O -> acc | Model.S k -> go (acc + 1) k in
  go 0 n

let rec pos_of_int (i : int) : Model.positive =
  if i <= 1 then Model.Coq_xH
  else if i land 1 = 0 then Model.Coq_xO (pos_of_int (i lsr 1))
  else Model.Coq_xI (pos_of_int (i lsr 1))

let z_of_int (i : int) : Model.z =
  if i = 0 then Model.Z0 else if i > 0 then Model.Zpos (pos_of_int i) else Model.Zneg (pos_of_int (-i))

let rec int_of_pos = function
  | Model.Coq_xH -> 1
  | Model.Coq_xO p -> 2 * int_of_pos p
  | Model.Coq_xI p -> 2 * int_of_pos p + 1

let int_of_z = function
  | Model.Z0 -> 0
  | Model.Zpos p -> int_of_pos p
  | Model.Zneg p -> - (int_of_pos p)

let ascii_of_char (c : char) : Model.ascii =
  let n = Char.code c in
  let b k = (n lsr k) land 1 = 1 in
  Model.Ascii (b 0, b 1, b 2, b 3, b 4, b 5, b 6, b 7)

let char_of_ascii (Model.Ascii (b0, b1, b2, b3, b4, b5, b6, b7)) : char =
  let v b k = if b then 1 lsl k else 0 in
  Char.chr (v b0 0 + v b1 1 + v b2 2 + v b3 3 + v b4 4 + v b5 5 + v b6 6 + v b7 7)

let coq_string (s : string) : Model.string =
  let r = ref Model.EmptyString in
  for i = String.length s - 1 downto 0 do
    r := Model.String (ascii_of_char s.[i], !r)
  done;
  !r

let ocaml_string (s : Model.string) : string =
  let b = Buffer.create 16 in
  let rec go = function
    | Model.EmptyString -> ()
    | Model.String (a, r) -> Buffer.add_char b (char_of_ascii a); go r
  in
  go s; Buffer.contents b

(* decimal text <-> Z through the (verified) stdlib conversions that were extracted *)
let z_of_dec (s : string) : Model.z =
  match Model.z_of_string (coq_string s) with
  | Some z -> z
  | None -> failwith ("not a decimal number: " ^ s)

let dec_of_z (z : Model.z) : string = ocaml_string (Model.z_to_string z)

let zlist_of_ints l = List.map z_of_int l
let ints_of_zlist l = List.map int_of_z l
