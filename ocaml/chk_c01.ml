(* C01: the model's counts on the dumped vector = the implementation's; the checker of the
   theorem's hypothesis accepts the vector; the truth table of the vector = the source's. *)
open Blocks

let int_n b = match find b "n" with Some [n] -> int_of_string n | _ -> failwith "no n"

let mask_of_cfg (m : Model.z list) : int =
  List.fold_left (fun acc l -> let v = Conv.int_of_z l in if v > 0 then acc lor (1 lsl (v - 1)) else acc) 0 m

let check (b : block) : verdict list =
  match impl b "panic" with
  | Some msg -> [Viol ("load:panic", "loading a well-formed file panicked: " ^ String.concat " " msg)]
  | None when find b "bigcircuit" <> None ->
    (* corpus-size vector (not dumped): only the oracle applies *)
    bump "big_circuits_oracle_only";
    let impl_rc = match impl b "rc" with Some [r] -> r | _ -> "?" in
    let n = int_n b in
    (match find b "src_count", impl b "nvars" with
     | Some [sc], _ when sc <> impl_rc ->
       [Viol ("count:wrong-total", Printf.sprintf "reported count %s, source formula has %s models" impl_rc sc)]
     | _, Some [nv] when int_of_string nv <> n ->
       [Viol ("load:feature-count", Printf.sprintf "loaded with n=%d but number_of_variables=%s" n nv)]
     | _ -> [Ok])
  | None ->
    let n = int_n b in
    let c = b.circuit in
    let out = ref [] in
    let add v = out := v :: !out in
    let impl_counts = match impl b "counts" with Some l -> l | None -> [] in
    let model_counts = List.map Conv.dec_of_z (Model.counts c) in
    let impl_rc = match impl b "rc" with Some [r] -> r | _ -> "?" in
    let model_rc = Conv.dec_of_z (Model.root_count c) in
    (match find b "src_count" with
     | Some [sc] when sc <> impl_rc ->
       add (Viol ("count:wrong-total", Printf.sprintf "reported count %s, source formula has %s models" impl_rc sc))
     | _ -> ());
    if model_counts <> impl_counts then
      add (Diff ("counts", Printf.sprintf "node counts differ: model [%s] impl [%s]"
                   (String.concat " " model_counts) (String.concat " " impl_counts)));
    if model_rc <> impl_rc then
      add (Diff ("rc", Printf.sprintf "root count: model %s impl %s" model_rc impl_rc));
    (match impl b "nvars" with
     | Some [nv] when int_of_string nv <> n ->
       add (Viol ("load:feature-count", Printf.sprintf "loaded with n=%d but number_of_variables=%s" n nv))
     | _ -> ());
    (* d4 files: the file-level predicate of theorem C01_d4_loader_wf; a conforming file whose
       loaded vector fails check_wf contradicts the theorem *)
    let conform =
      match List.assoc_opt "d4" b.files with
      | Some lines when n <= 2000 ->
        (match Mdl.LoadD4.lex_lines_d4 (List.map Conv.coq_string lines) with
         | Some toks -> Some (Mdl.D4Conform.d4_conform toks (Conv.nat_of_int n))
         | None -> None)
      | _ -> None in
    (match conform with
     | Some true -> bump "d4_conform_yes" | Some false -> bump "d4_conform_no" | None -> ());
    let wf = Model.check_wf c (Conv.nat_of_int n) in
    if conform = Some true && not wf then
      add (Viol ("conform:not-wf", "d4_conform accepts the file but check_wf rejects the loaded vector"));
    if not wf then begin
      let parts = [ "idx_ok", Model.idx_ok c; "decomposable", Model.decomposable c;
                    "smooth", Model.smooth c; "complete", Model.complete c (Conv.nat_of_int n);
                    "det_cert", Model.det_cert c; "unique_leaves", Model.unique_leaves c;
                    "lits_nonzero", Model.lits_nonzero c; "all_reachable", Model.all_reachable c ] in
      let failed = List.filter_map (fun (k, v) -> if v then None else Some k) parts in
      add (Diff ("check_wf", "loaded vector rejected by check_wf: " ^ String.concat "," failed))
    end else bump "wf_accepted";
    (match find b "src_models" with
     | Some ms when n <= 10 ->
       let src = List.sort compare (List.map int_of_string ms) in
       let mine = List.sort compare (List.map mask_of_cfg (Model.models c (Conv.nat_of_int n))) in
       bump "truth_tables_compared";
       if src <> mine then
         add (Viol ("load:function-changed",
                    Printf.sprintf "the loaded circuit denotes another function: %d models vs %d in the source"
                      (List.length mine) (List.length src)))
     | _ -> ());
    if !out = [] then [Ok] else List.rev !out

let kinds = ["C01", check]
