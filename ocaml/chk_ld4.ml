(* ld4: exact correspondence of the d4 LOADER model (Model/LoadD4.v, Model/LexerD4.v).
   LD4     DIFF load-vector : load_lines (extracted distribute_building + build_d4_ddnnf + rebuild)
                              of the file's text = the dumped Ddnnf.nodes, node for node, children
                              in order; None exactly when the implementation panicked
           DIFF load-nvars  : number_of_variables
           STAT norecycle_* : the same model without node-index recycling (is recycling observable?)
   LD4LEX  DIFF lex         : lex_line_d4_res on every sample line = Ok token / Err / panic of the
                              Rust lexer
           DIFF file-semantics : (spec side, no implementation involved) the truth table of
                              eval_d4 on the file = the truth table of the source formula the
                              reference compiler compiled; DIFF file-maxvar: d4_maxvar vs nvars
   There is no oracle here: what the loaded vector must satisfy is judged by kind C01 (check_wf,
   truth table); this kind only ties the loader model to the code. *)
open Blocks

let show_node = function
  | Model.Lit l -> "L " ^ string_of_int (Conv.int_of_z l)
  | Model.And cs -> String.concat " " ("A" :: List.map (fun c -> string_of_int (Conv.int_of_nat c)) cs)
  | Model.Or cs -> String.concat " " ("O" :: List.map (fun c -> string_of_int (Conv.int_of_nat c)) cs)
  | Model.TrueN -> "T"
  | Model.FalseN -> "F"
let show_circuit c = String.concat " / " (List.map show_node c)

let first_difference (m : Model.ntype list) (c : Model.ntype list) : string =
  let rec go i = function
    | x :: xs, y :: ys -> if x = y then go (i + 1) (xs, ys) else Printf.sprintf "node %d: model [%s] impl [%s]" i (show_node x) (show_node y)
    | [], y :: _ -> Printf.sprintf "node %d: model has no more nodes, impl [%s]" i (show_node y)
    | x :: _, [] -> Printf.sprintf "node %d: model [%s], impl has no more nodes" i (show_node x)
    | [], [] -> "equal" in
  Printf.sprintf "%s (model %d nodes, impl %d nodes)" (go 0 (m, c)) (List.length m) (List.length c)

let check_load (b : block) : verdict list =
  let n = match find b "n" with Some [n] -> int_of_string n | _ -> failwith "no n" in
  let lines = match List.assoc_opt "d4" b.files with Some l -> l | None -> failwith "no d4 file" in
  let big_ids = n > 20000 || List.exists (fun l -> List.exists (fun t ->
      match int_of_string_opt t with Some v -> abs v > 20000 | None -> false) (split_ws l)) lines in
  match find b "skipped" with
  | Some _ -> bump "skipped_too_big"; [Ok]
  | None when big_ids && impl b "panic" <> None ->
    (* the model would build hundreds of thousands of nodes: not run; since repair F11 such files load *)
    [Diff ("load-vector", "the implementation panicked on a file with feature ids / total_features above 20000 (model not run)")]
  | None ->
    let clines = List.map Conv.coq_string lines in
    let cn = Conv.nat_of_int n in
    let model = Mdl.LoadD4.load_lines clines cn in
    let norec =
      match Mdl.LoadD4.lex_lines_d4 clines with
      | Some toks -> Mdl.LoadD4.load_d4_norecycle toks cn
      | None -> None in
    let out = ref [] in
    let add v = out := v :: !out in
    (match impl b "panic", model with
     | Some _, None -> bump "panic_agreed"
     | Some msg, Some (mc, _) ->
       add (Diff ("load-vector", Printf.sprintf "the implementation panicked (%s), the model loads [%s]"
                    (String.concat " " msg) (show_circuit mc)))
     | None, None ->
       add (Diff ("load-vector", Printf.sprintf "the model panics, the implementation loads [%s]" (show_circuit b.circuit)))
     | None, Some (mc, mn) ->
       if mc <> b.circuit then add (Diff ("load-vector", first_difference mc b.circuit))
       else begin
         bump "vector_equal";
         bump_by "nodes_compared" (List.length mc);
         if List.exists (function Model.FalseN -> true | _ -> false) mc then bump "shape_false_node";
         if List.exists (function Model.TrueN -> true | _ -> false) mc then bump "shape_true_node";
         if List.length mc >= 200 then bump "shape_200_nodes_or_more"
       end;
       (match impl b "nvars" with
        | Some [nv] when int_of_string nv = Conv.int_of_nat mn -> ()
        | Some [nv] -> add (Diff ("load-nvars", Printf.sprintf "number_of_variables: model %d impl %s" (Conv.int_of_nat mn) nv))
        | _ -> add (Diff ("block", "no nvars line"))));
    (* the file semantics of the theorem C01_d4_loader_sem against the generator's truth table *)
    (match find b "src_models", Mdl.LoadD4.lex_lines_d4 clines with
     | Some ms, Some toks when n <= 10 ->
       let mask_of_cfg (m : Model.z list) : int =
         List.fold_left (fun acc l -> let v = Conv.int_of_z l in if v > 0 then acc lor (1 lsl (v - 1)) else acc) 0 m in
       let src = List.sort compare (List.map int_of_string ms) in
       let mine = List.sort compare (List.map mask_of_cfg (Mdl.D4Sem.d4_models toks cn)) in
       bump "file_semantics_compared";
       if src <> mine then
         add (Diff ("file-semantics", Printf.sprintf "eval_d4 of the file has %d models, the source formula %d"
                      (List.length mine) (List.length src)));
       (match model with
        | Some (_, mn) when Conv.int_of_nat mn <> max n (Conv.int_of_nat (Mdl.D4Sem.d4_maxvar toks)) ->
          add (Diff ("file-maxvar", "number_of_variables is not max(n, d4_maxvar)"))
        | _ -> ())
     | _ -> ());
    (* d4_conform (Spec/D4Conform.v): theorem C01_d4_loader_wf says that a conforming file that
       loads gives a vector accepted by check_wf; a counterexample is a contradiction of the
       theorem (bug in the model, the spec or the harness), never to be suppressed *)
    (match Mdl.LoadD4.lex_lines_d4 clines with
     | Some toks when not big_ids ->
       let info = match find b "info" with Some t -> String.concat " " t | None -> "" in
       let has sub = let n = String.length sub and m = String.length info in
         let rec go i = i + n <= m && (String.sub info i n = sub || go (i + 1)) in go 0 in
       let cls =
         if has "dead and-chain" then "deadchain" else if has "multiway" then "multiway"
         else if has "root idiom" then "rootidiom" else if has "trivial components" then "trivial"
         else if has "special" then "special" else if has "random dag" then "randomdag"
         else if has "corpus" then "corpus"
         else if String.length b.id >= 8 && String.sub b.id 0 8 = "ld4-hand" then "hand" else "plain" in
       if Mdl.D4Conform.d4_conform toks cn then begin
         bump ("conform_yes_" ^ cls);
         (match impl b "panic" with
          | Some _ -> bump "conform_but_panic"
          | None ->
            let wf = Model.check_wf b.circuit (Conv.nat_of_int (match impl b "nvars" with Some [nv] -> int_of_string nv | _ -> n)) in
            if wf then bump "conform_and_wf"
            else add (Viol ("conform:not-wf", "d4_conform accepts the file but check_wf rejects the loaded vector [" ^ show_circuit b.circuit ^ "]")))
       end else begin
         bump ("conform_no_" ^ cls);
         (match impl b "panic" with
          | None when Model.check_wf b.circuit (Conv.nat_of_int (match impl b "nvars" with Some [nv] -> int_of_string nv | _ -> n)) ->
            bump ("nonconform_but_wf_" ^ cls)
          | _ -> ())
       end
     | _ -> ());
    (* recycling experiment: never a verdict, only statistics.  recycling_happened = the graph
       built with recycling has fewer node slots than the one built without, i.e. some add_node
       took a slot from the free list *)
    (match Mdl.LoadD4.lex_lines_d4 clines with
     | Some toks ->
       let slots rc = match Mdl.LoadD4.build_d4_graph rc (fun l -> l) toks cn with
         | Some ((g, _), _) -> Some (List.length (Mdl.LoadD4.sg_nodes g)) | None -> None in
       (match slots true, slots false with
        | Some a, Some b when a < b -> bump "recycling_happened"
        | _ -> ())
     | None -> ());
    (match impl b "panic", norec with
     | Some _, None -> ()
     | None, Some (mc, _) when mc = b.circuit -> bump "norecycle_equal"
     | _ -> bump "norecycle_differs");
    if !out = [] then [Ok] else List.rev !out

let show_token = function
  | Mdl.LexerD4.DAnd -> "A"
  | Mdl.LexerD4.DOr -> "O"
  | Mdl.LexerD4.DTrue -> "T"
  | Mdl.LexerD4.DFalse -> "F"
  | Mdl.LexerD4.DEdge (f, t, fs) ->
    String.concat " " ("E" :: List.map (fun z -> string_of_int (Conv.int_of_z z)) (f :: t :: fs))

let check_lex (b : block) : verdict list =
  let lines = match List.assoc_opt "lines" b.files with Some l -> Array.of_list l | None -> failwith "no lines" in
  let out = ref [] in
  List.iter (fun toks ->
      match toks with
      | i :: res ->
        let i = int_of_string i in
        let impl_s = String.concat " " res in
        let model_s =
          match Mdl.LexerD4.lex_line_d4_res (Conv.coq_string lines.(i)) with
          | Mdl.LexerD4.D4Ok t -> "ok " ^ show_token t
          | Mdl.LexerD4.D4Err -> "err"
          | Mdl.LexerD4.D4Panic -> "panic" in
        if model_s = impl_s then bump ("lex_" ^ (match res with r :: _ -> r | [] -> "?"))
        else out := Diff ("lex", Printf.sprintf "line %S: model %s, impl %s" lines.(i) model_s impl_s) :: !out
      | [] -> ()) (find_all b "lex");
  if !out = [] then [Ok] else List.rev !out

let kinds = ["LD4", check_load; "LD4LEX", check_lex]
