(* Hand-written shim: the core extracted modules under their historical flat name `Model`.
   The extracted code itself lives in ocaml/gen/*.ml (Separate Extraction, one OCaml module per
   Coq module, packed as `Mdl`).  Components added later are used through their own module
   (Mdl.Cursor, Mdl.StreamTS, ...), which keeps equal short names apart. *)
include Mdl.Datatypes
include Mdl.BinNums
type z = coq_Z
type n = coq_N
include Mdl.Ascii
include Mdl.String
module Z = Mdl.BinInt.Z
module Pos = Mdl.BinPos.Pos
include Mdl.Extract
include Mdl.Circuit
include Mdl.Query
include Mdl.Enumerate
include Mdl.ToCnf
let models = Mdl.Circuit.coq_Models
let modelsA = Mdl.Circuit.coq_ModelsA
let mC = Mdl.Circuit.coq_MC
let mCA = Mdl.Circuit.coq_MCA
