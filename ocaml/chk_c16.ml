(* C16 (model-free part): the answer of a long-lived instance must equal the answer of a freshly
   loaded instance and of a clone, request by request; two models paged alternately must each
   page through their own cycle (judged by the truth table of each). *)
open Blocks

let check_history (b : block) : verdict list =
  match impl b "panic" with
  | Some _ -> [Viol ("load:panic", "loading panicked")]
  | None ->
    let out = ref [] in
    let cur = ref "" and r = ref None in
    let n_ops = ref 0 in
    List.iter (fun (kw, toks) ->
        let txt = String.concat " " toks in
        match kw with
        | "op" -> cur := txt; r := None; incr n_ops
        | "r" ->
          r := Some txt;
          if String.length txt >= 5 && String.sub txt 0 5 = "PANIC" then
            out := Viol ("history:panic", Printf.sprintf "request [%s] panicked on the long-lived instance: %s" !cur txt) :: !out
        | "fresh" ->
          (match !r with
           | Some live when live <> txt ->
             out := Viol ("history:answer-changed",
                          Printf.sprintf "request [%s]: long-lived instance answered {%s}, a fresh instance {%s}" !cur live txt) :: !out
           | _ -> ())
        | "clone" ->
          (match !r with
           | Some live when live <> txt ->
             out := Viol ("history:clone-differs",
                          Printf.sprintf "request [%s]: instance answered {%s}, its clone {%s}" !cur live txt) :: !out
           | _ -> ())
        | "clean" ->
          if toks = ["0"] then out := Diff ("clean", Printf.sprintf "after [%s] markers/md are not reset" !cur) :: !out
        | _ -> ()) b.lines;
    bump_by "history_requests" !n_ops;
    (* one verdict per block: the first oracle violation if there is one, else the first difference *)
    let l = List.rev !out in
    match List.filter (function Viol _ -> true | _ -> false) l, l with
    | v :: _, _ -> [v]
    | [], [] -> [Ok]
    | [], d :: _ -> [d]

(* C16X: two different models paged alternately in one process, same assumptions.
   ORACLE (truth tables only): the pages of either model, taken on their own, must be what C06 says
   about ONE model: each page holds min(k, not yet returned in this cycle) complete, pairwise
   distinct models of THAT model's truth table that contain the assumptions, none of them returned
   before in the running cycle; after count(A) configurations the cycle restarts; `none` exactly
   when no model contains the assumptions.  Without a truth table (n > 10) the reference is the
   same request sequence on a further fresh instance of that model with nothing in between.
   Signature: enumerate:cursor-shared-across-models when the model paged alone passes the same
   oracle (or the harness was built against a ddnnife whose cursor is process-global, where no
   instance is ever alone); enumerate:paging-wrong when it fails alone as well (that is C06's
   business, reported here all the same).  Since repair F21 there is no finding line for the
   first signature: any occurrence is a violation. *)
let parse_page (toks : string list) : (int list list option, string) result =
  match toks with
  | "PANIC" :: m -> Stdlib.Error (String.concat " " m)
  | ["none"] -> Stdlib.Ok None
  | ["empty"] -> Stdlib.Ok (Some [])
  | _ -> (try Stdlib.Ok (Some (List.map Chk_ops.ints (Chk_ops.split_on ";" toks))) with _ -> Stdlib.Error "unreadable answer")

(* the per-model cycle oracle; returns the first complaint *)
let cycle_oracle (n : int) (tbl : int list) (pages : (int * int list * string list) list) : string option =
  let bad = ref None in
  let complain m = if !bad = None then bad := Some m in
  let cycles : (int list, (int, unit) Hashtbl.t) Hashtbl.t = Hashtbl.create 4 in
  List.iter (fun (k, a, toks) ->
      let show = String.concat " " toks in
      let ta = List.filter (fun m -> List.for_all (Chk_ops.holds m) a) tbl in
      let cnt = List.length ta in
      match parse_page toks with
      | Stdlib.Error m -> complain (Printf.sprintf "enumerate(%d) panicked: %s" k m)
      | Stdlib.Ok None -> if cnt > 0 then complain (Printf.sprintf "enumerate(%d) reported unsatisfiable, %d models contain the assumptions" k cnt)
      | Stdlib.Ok (Some l) ->
        if cnt = 0 then complain (Printf.sprintf "enumerate(%d) returned {%s} but no model contains the assumptions" k show)
        else begin
          let key = List.sort_uniq compare a in
          let seen = match Hashtbl.find_opt cycles key with
            | Some h -> h | None -> let h = Hashtbl.create 16 in Hashtbl.replace cycles key h; h in
          let remaining = cnt - Hashtbl.length seen in
          if List.length l <> min k remaining then
            complain (Printf.sprintf "enumerate(%d) returned %d configurations {%s}; %d of its %d models were not yet returned in this cycle"
                        k (List.length l) show remaining cnt);
          List.iter (fun cfg ->
              if not (Chk_enum.complete_sorted n cfg) then complain (Printf.sprintf "[%s] is not one literal per feature" (String.concat " " (List.map string_of_int cfg)))
              else begin
                let m = Chk_enum.mask_of cfg in
                if not (List.mem m ta) then complain (Printf.sprintf "[%s] is not a model of this circuit containing the assumptions" (String.concat " " (List.map string_of_int cfg)))
                else if Hashtbl.mem seen m then complain (Printf.sprintf "[%s] was already returned in this cycle of this model" (String.concat " " (List.map string_of_int cfg)))
                else Hashtbl.replace seen m ()
              end) l;
          if Hashtbl.length seen >= cnt then Hashtbl.reset seen
        end) pages;
  !bad

let check_cross (b : block) : verdict list =
  if impl b "panic" <> None then [Viol ("load:panic", "loading panicked")] else begin
  let inter = Hashtbl.create 4 and refs = Hashtbl.create 4 in
  let add tbl m v = Hashtbl.replace tbl m ((try Hashtbl.find tbl m with Not_found -> []) @ [v]) in
  let entry rest =
    match Chk_ops.split_on "=" rest with
    | [ka; page] ->
      (match Chk_ops.split_on "|" ka with
       | [[k]; a] -> Some (int_of_string k, Chk_ops.ints a, page)
       | _ -> None)
    | ka :: pages ->   (* a '=' inside a panic message *)
      (match Chk_ops.split_on "|" ka with
       | [[k]; a] -> Some (int_of_string k, Chk_ops.ints a, List.concat pages)
       | _ -> None)
    | [] -> None in
  List.iter (fun (kw, toks) ->
      match kw, toks with
      | "xenum", m :: rest -> (match entry rest with Some e -> add inter m e | None -> ())
      | "xref", m :: rest -> (match entry rest with Some e -> add refs m e | None -> ())
      | _ -> ()) b.lines;
  let global_cursor = (find b "cursor_per_model" = Some ["0"]) in
  let ns = List.filter_map (function [m; n] -> Some (m, int_of_string n) | _ -> None) (find_all b "xn") in
  let tbls = List.filter_map (function m :: ms -> Some (m, List.map int_of_string ms) | _ -> None) (find_all b "xmodels") in
  let out = ref [] in
  List.iter (fun m ->
      let pages = try Hashtbl.find inter m with Not_found -> [] in
      let alone = try Hashtbl.find refs m with Not_found -> [] in
      let verdict =
        match List.assoc_opt m tbls, List.assoc_opt m ns with
        | Some tbl, Some n ->
          bump "cross_model_sequences_judged_by_truth_table";
          (match cycle_oracle n tbl pages with
           | None -> None
           | Some msg ->
             let alone_ok = (cycle_oracle n tbl alone = None) in
             Some ((if alone_ok || global_cursor then "enumerate:cursor-shared-across-models" else "enumerate:paging-wrong"),
                   Printf.sprintf "model %s paged alternately with another model: %s; its pages were {%s}%s" m msg
                     (String.concat " | " (List.map (fun (_, _, p) -> String.concat " " p) pages))
                     (if alone_ok then Printf.sprintf "; paged alone it returns {%s}" (String.concat " | " (List.map (fun (_, _, p) -> String.concat " " p) alone)) else "")))
        | _ ->
          bump "cross_model_sequences_judged_against_the_model_alone";
          if pages <> alone then
            Some ("enumerate:cursor-shared-across-models",
                  Printf.sprintf "model %s paged alternately with another model returned {%s}; alone in the process it returns {%s}" m
                    (String.concat " | " (List.map (fun (_, _, p) -> String.concat " " p) pages))
                    (String.concat " | " (List.map (fun (_, _, p) -> String.concat " " p) alone)))
          else None in
      match verdict with Some (sg, msg) -> out := Viol (sg, msg) :: !out | None -> ()) ["0"; "1"];
  bump "cross_model_histories";
  match List.rev !out with [] -> [Ok] | l -> l
  end

let kinds = ["C16H", check_history; "C16X", check_cross]
