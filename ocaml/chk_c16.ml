(* C16 (model-free part): the answer of a long-lived instance must equal the answer of a freshly
   loaded instance and of a clone, request by request; two models paged alternately must each
   see their own paging sequence. *)
open Blocks

let check_history (b : block) : verdict list =
  match impl b "panic" with
  | Some _ -> [Viol ("load:panic", "loading panicked")]
  | None ->
    let out = ref [] in
    let cur = ref "" and r = ref None in
    let n_ops = ref 0 in
    List.iter (fun (kw, toks) ->
        let txt = String.concat " " toks in
        match kw with
        | "op" -> cur := txt; r := None; incr n_ops
        | "r" ->
          r := Some txt;
          if String.length txt >= 5 && String.sub txt 0 5 = "PANIC" then
            out := Viol ("history:panic", Printf.sprintf "request [%s] panicked on the long-lived instance: %s" !cur txt) :: !out
        | "fresh" ->
          (match !r with
           | Some live when live <> txt ->
             out := Viol ("history:answer-changed",
                          Printf.sprintf "request [%s]: long-lived instance answered {%s}, a fresh instance {%s}" !cur live txt) :: !out
           | _ -> ())
        | "clone" ->
          (match !r with
           | Some live when live <> txt ->
             out := Viol ("history:clone-differs",
                          Printf.sprintf "request [%s]: instance answered {%s}, its clone {%s}" !cur live txt) :: !out
           | _ -> ())
        | "clean" ->
          if toks = ["0"] then out := Diff ("clean", Printf.sprintf "after [%s] markers/md are not reset" !cur) :: !out
        | _ -> ()) b.lines;
    bump_by "history_requests" !n_ops;
    match List.rev !out with [] -> [Ok] | l -> [List.hd l]

let check_cross (b : block) : verdict list =
  let inter = Hashtbl.create 4 and refs = Hashtbl.create 4 in
  let add tbl m v = Hashtbl.replace tbl m ((try Hashtbl.find tbl m with Not_found -> []) @ [v]) in
  List.iter (fun (kw, toks) ->
      match kw, toks with
      | "xenum", m :: k :: "=" :: rest -> add inter m (k, String.concat " " rest)
      | "xref", m :: k :: "=" :: rest -> add refs m (k, String.concat " " rest)
      | _ -> ()) b.lines;
  let bad = ref None in
  Hashtbl.iter (fun m pages ->
      let expected = try Hashtbl.find refs m with Not_found -> [] in
      if pages <> expected && !bad = None then
        bad := Some (Printf.sprintf "model %s paged alternately with another model returned {%s}; alone in the process it returns {%s}"
                       m (String.concat " | " (List.map snd pages)) (String.concat " | " (List.map snd expected)))) inter;
  bump "cross_model_histories";
  match !bad with
  | Some msg -> [Viol ("enumerate:cursor-shared-across-models", msg)]
  | None -> [Ok]

let kinds = ["C16H", check_history; "C16X", check_cross]
