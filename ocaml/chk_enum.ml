(* C06 enumeration paging, C07 seeded sampling (choice-stream replay), C07U uniformity statistic *)
open Blocks
open Chk_ops

let parse_cfgs (toks : string list) : int list list option =
  match toks with
  | ["none"] -> None
  | ["empty"] -> Some []
  | _ -> Some (List.map ints (split_on ";" toks))

let show_cfgs = function
  | None -> "none"
  | Some l -> String.concat " ; " (List.map (fun c -> String.concat " " (List.map string_of_int c)) l)

let complete_sorted n (c : int list) = List.length c = n && List.for_all2 (fun l v -> abs l = v) c (List.init n (fun i -> i + 1))
let mask_of (c : int list) = List.fold_left (fun acc l -> if l > 0 then acc lor (1 lsl (l - 1)) else acc) 0 c

let parse_choices (toks : string list) : Model.choice list =
  if toks = [] then [] else
  List.map (function
      | "S" :: v -> Model.Split (List.map (fun x -> Conv.z_of_int (int_of_string x)) v)
      | "P" :: p -> Model.Perm (List.map (fun x -> Conv.nat_of_int (int_of_string x)) p)
      | _ -> failwith "bad choice") (split_on ";" toks)

let check (prop : string) (b : block) : verdict list =
  match impl b "panic" with
  | Some msg -> [Viol ("load:panic", "loading panicked: " ^ String.concat " " msg)]
  | None ->
    let n = Chk_c01.int_n b in
    let nn = Conv.nat_of_int n in
    let c = b.circuit in
    let d = Model.build c nn in
    let st = ref (Model.fresh_scratch c) in
    let cur = ref [] in
    let tbl = table b n in
    let out = ref [] in
    let add v = out := v :: !out in
    let z l = Conv.zlist_of_ints l in
    (* oracle bookkeeping for paging: per assumption SET, what was handed out in this cycle *)
    let cycles : (int list, (int, unit) Hashtbl.t) Hashtbl.t = Hashtbl.create 8 in
    let last_sample : (string, string) Hashtbl.t = Hashtbl.create 8 in
    List.iter (fun o ->
        let name = List.hd o.op and args = List.tl o.op in
        let opdesc = String.concat " " o.op in
        (match o.pan with
         | Some msg -> add (Viol (sig_of name "panic", Printf.sprintf "request [%s] panicked: %s" opdesc msg))
         | None -> ());
        let res = match o.res with Some r -> r | None -> [] in
        (match name with
         | "enum" when o.pan = None ->
           (match split_on "|" args with
            | [[k]; a] ->
              let k = int_of_string k and a = ints a in
              let ((s', cur'), r) = Model.enumerate d (z a) (Conv.z_of_int k) !cur !st in
              st := s'; cur := cur';
              let mr = Option.map (List.map Conv.ints_of_zlist) r in
              let ir = parse_cfgs res in
              if mr <> ir then add (Diff ("enum", Printf.sprintf "[%s] model {%s} impl {%s}" opdesc (show_cfgs mr) (show_cfgs ir)));
              (match tbl with
               | Some t ->
                 let ta = List.filter (fun m -> List.for_all (holds m) a) t in
                 let cnt = List.length ta in
                 let in_range = List.for_all (fun l -> abs l >= 1 && abs l <= n) a in
                 (match ir with
                  | None ->
                    if k > 0 && cnt > 0 && in_range then
                      add (Viol (sig_of "enum" "unsat-mismatch", Printf.sprintf "[%s] reported unsatisfiable but %d models contain the assumptions" opdesc cnt))
                  | Some l ->
                    if k > 0 && cnt = 0 then
                      add (Viol (sig_of "enum" "unsat-mismatch", Printf.sprintf "[%s] returned configurations but no model contains the assumptions" opdesc))
                    else if k > 0 then begin
                      (* one cycle per SET of assumed literals: since the repair F19 (finding K12) the
                         implementation keys its cursor by the set, so requests spelled with a repeated
                         literal continue the cycle of the plain spelling (before: List.sort compare a,
                         which let every spelling have a cycle of its own and hid K12 from this oracle) *)
                      let key = List.sort_uniq compare a in
                      let seen = match Hashtbl.find_opt cycles key with
                        | Some h -> h | None -> let h = Hashtbl.create 16 in Hashtbl.replace cycles key h; h in
                      let remaining = cnt - Hashtbl.length seen in
                      let expect = min k remaining in
                      if List.length l <> expect then
                        add (Viol (sig_of "enum" "page-size", Printf.sprintf "[%s] returned %d configurations, expected min(%d, %d not yet returned in this cycle)" opdesc (List.length l) k remaining));
                      List.iter (fun cfg ->
                          if not (complete_sorted n cfg) then
                            add (Viol (sig_of "enum" "not-complete", Printf.sprintf "[%s] configuration [%s] is not one literal per feature in feature order" opdesc (String.concat " " (List.map string_of_int cfg))))
                          else begin
                            let m = mask_of cfg in
                            if not (List.mem m ta) then
                              add (Viol (sig_of "enum" "not-a-model", Printf.sprintf "[%s] configuration [%s] is not a model containing the assumptions" opdesc (String.concat " " (List.map string_of_int cfg))))
                            else if Hashtbl.mem seen m then
                              add (Viol (sig_of "enum" "duplicate", Printf.sprintf "[%s] configuration [%s] was already returned in this cycle" opdesc (String.concat " " (List.map string_of_int cfg))))
                            else Hashtbl.replace seen m ()
                          end) l;
                      if Hashtbl.length seen >= cnt then Hashtbl.reset seen
                    end else if l <> [] then
                      add (Viol (sig_of "enum" "page-size", Printf.sprintf "[%s] amount 0 returned configurations" opdesc)))
               | None -> ())
            | _ -> add (Diff ("enum", "bad op line")))
         | "sample" when o.pan = None ->
           (match split_on "|" args with
            | [[k; _seed]; a] ->
              let k = int_of_string k and a = ints a in
              let chs = match List.assoc_opt "ch" [] with _ -> [] in
              ignore chs;
              let ir = parse_cfgs res in
              (* seeded determinism on one instance *)
              (match Hashtbl.find_opt last_sample opdesc with
               | Some prev when prev <> String.concat " " res ->
                 add (Viol (sig_of "sample" "not-reproducible", Printf.sprintf "[%s] repeated on the same instance gave a different list" opdesc))
               | _ -> Hashtbl.replace last_sample opdesc (String.concat " " res));
              (match tbl with
               | Some t ->
                 let ta = List.filter (fun m -> List.for_all (holds m) a) t in
                 let cnt = List.length ta in
                 (match ir with
                  | None -> if cnt > 0 then add (Viol (sig_of "sample" "unsat-mismatch", Printf.sprintf "[%s] reported unsatisfiable but %d models contain the assumptions" opdesc cnt))
                  | Some l ->
                    if cnt = 0 then add (Viol (sig_of "sample" "unsat-mismatch", Printf.sprintf "[%s] returned samples but no model contains the assumptions" opdesc))
                    else begin
                      if List.length l <> k then
                        add (Viol (sig_of "sample" "amount", Printf.sprintf "[%s] returned %d samples" opdesc (List.length l)));
                      List.iter (fun cfg ->
                          if not (complete_sorted n cfg) || not (List.mem (mask_of cfg) ta) then
                            add (Viol (sig_of "sample" "not-a-model", Printf.sprintf "[%s] sample [%s] is not a complete model containing the assumptions" opdesc (String.concat " " (List.map string_of_int cfg))))) l
                    end)
               | None -> ())
            | _ -> add (Diff ("sample", "bad op line")))
         | "uniform" when o.pan = None ->
           (match split_on "|" args with
            | [[total]; a] ->
              let total = int_of_string total and a = ints a in
              (match tbl with
               | Some t ->
                 let ta = List.filter (fun m -> List.for_all (holds m) a) t in
                 let cnt = List.length ta in
                 let obs = List.map (fun tok -> match String.split_on_char ':' tok with
                     | [cfg; k] -> (mask_of (List.map int_of_string (String.split_on_char ',' cfg)), int_of_string k)
                     | _ -> (0, 0)) res in
                 if List.exists (fun (m, _) -> not (List.mem m ta)) obs then
                   add (Viol (sig_of "sample" "not-a-model", Printf.sprintf "[%s] a drawn configuration is not a model containing the assumptions" opdesc));
                 let e = float_of_int total /. float_of_int cnt in
                 let chi2 = List.fold_left (fun acc m ->
                     let o = float_of_int (try List.assoc m obs with Not_found -> 0) in
                     acc +. (o -. e) *. (o -. e) /. e) 0.0 ta in
                 let df = float_of_int (cnt - 1) in
                 (* Wilson-Hilferty quantile with z = 7.5 (one-sided tail < 1e-13) *)
                 let zq = 7.5 in
                 let thr = df *. ((1.0 -. 2.0 /. (9.0 *. df) +. zq *. sqrt (2.0 /. (9.0 *. df))) ** 3.0) in
                 bump "uniformity_tests";
                 if chi2 > thr then
                   add (Viol (sig_of "sample" "not-uniform", Printf.sprintf "[%s] chi-square %.1f over %d models exceeds %.1f (false-alarm probability < 1e-12)" opdesc chi2 cnt thr))
               | None -> ())
            | _ -> ())
         | _ -> ());
        if not o.clean then add (Diff ("clean", Printf.sprintf "after [%s] the implementation's markers/md are not reset" opdesc))
      ) (collect_ops b);
    ignore prop;
    if !out = [] then [Ok] else List.rev !out

(* the choice stream needs the raw lines: second pass for C07 replay *)
let check_c07 (b : block) : verdict list =
  let base = check "C07" b in
  match impl b "panic" with
  | Some _ -> base
  | None ->
    let n = Chk_c01.int_n b in
    let d = Model.build b.circuit (Conv.nat_of_int n) in
    let st = ref (Model.fresh_scratch b.circuit) in
    let out = ref [] in
    let rec go = function
      | ("op", "sample" :: args) :: rest ->
        let find k = let rec f = function
            | (kw, t) :: _ when kw = k -> Some t
            | ("op", _) :: _ -> None
            | _ :: r -> f r | [] -> None in f rest in
        (match find "panic", find "r", find "ch", split_on "|" args with
         | None, Some res, Some ch, [[k; _]; a] ->
           let chs = parse_choices ch in
           let za = Conv.zlist_of_ints (ints a) and zk = Conv.z_of_int (int_of_string k) in
           (* the hypothesis of C07_valid, evaluated on the real run's stream (before the state moves on) *)
           let contract = Mdl.C07Defs.urs_choices_okb d za zk chs !st in
           let ((s', r), ok) = Model.uniform_random_sampling d za zk chs !st in
           st := s';
           let mr = Option.map (List.map Conv.ints_of_zlist) r in
           let ir = parse_cfgs res in
           bump "sample_replays";
           if mr <> ir then out := Diff ("sample-replay", Printf.sprintf "[sample %s] model {%s} impl {%s}" (String.concat " " args) (show_cfgs mr) (show_cfgs ir)) :: !out;
           if not ok then out := Diff ("sample-choices", Printf.sprintf "[sample %s] the recorded choice stream does not fit the model's traversal" (String.concat " " args)) :: !out;
           bump "sample_contract_checks";
           if ok && not contract then out := Diff ("sample-contract", Printf.sprintf "[sample %s] the recorded choice stream violates the contract of the random primitives (choices_ok)" (String.concat " " args)) :: !out;
           List.iter (function
               | Model.Perm p -> if not (Model.is_perm p) then out := Diff ("sample-choices", "a recorded shuffle is not a permutation") :: !out
               | Model.Split _ -> ()) chs
         | _ -> ());
        go rest
      | _ :: rest -> go rest
      | [] -> ()
    in
    go b.lines;
    let base = List.filter (fun v -> v <> Ok) base in
    match base @ List.rev !out with [] -> [Ok] | l -> l

let kinds = [ "C06", check "C06"; "C07", check_c07; "C07U", check "C07U" ]
