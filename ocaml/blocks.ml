(* Case blocks written by the Rust harness. *)
type block = {
  id : string;
  kind : string;
  lines : (string * string list) list;  (* keyword, tokens; in file order *)
  files : (string * string list) list;  (* kind, text lines *)
  circuit : Model.ntype list;
  raw : string list;
}

let split_ws (s : string) : string list =
  List.filter (fun t -> t <> "") (String.split_on_char ' ' s)

let parse_node (toks : string list) : Model.ntype =
  match toks with
  | ["L"; l] -> Model.Lit (Conv.z_of_int (int_of_string l))
  | "A" :: cs -> Model.And (List.map (fun c -> Conv.nat_of_int (int_of_string c)) cs)
  | "O" :: cs -> Model.Or (List.map (fun c -> Conv.nat_of_int (int_of_string c)) cs)
  | ["T"] -> Model.TrueN
  | ["F"] -> Model.FalseN
  | _ -> failwith ("bad node line: " ^ String.concat " " toks)

let read_blocks (ic : in_channel) (f : block -> unit) : unit =
  let cur = ref None in
  let lines = ref [] and files = ref [] and circ = ref [] and raw = ref [] in
  let pending_file = ref None and pending_nodes = ref 0 and skip_nodes = ref false in
  (try
     while true do
       let l = input_line ic in
       raw := l :: !raw;
       (match !pending_file with
        | Some (k, n, acc) when n > 0 ->
          let body = if String.length l >= 2 then String.sub l 2 (String.length l - 2) else "" in
          let acc = body :: acc in
          if n = 1 then (files := (k, List.rev acc) :: !files; pending_file := None)
          else pending_file := Some (k, n - 1, acc)
        | _ ->
          if !pending_nodes > 0 then begin
            (* corpus-size vectors are not converted (unary nat indices): the checkers see an
               empty circuit plus a `bigcircuit <k>` line and fall back to model-free oracles *)
            if not !skip_nodes then circ := parse_node (split_ws l) :: !circ;
            decr pending_nodes
          end else
            match split_ws l with
            | ["case"; id; kind] ->
              cur := Some (id, kind); lines := []; files := []; circ := []; raw := [l]
            | ["end"] ->
              (match !cur with
               | Some (id, kind) ->
                 f { id; kind; lines = List.rev !lines; files = List.rev !files;
                     circuit = List.rev !circ; raw = List.rev !raw };
                 cur := None
               | None -> ())
            | ["file"; k; n] ->
              let n = int_of_string n in
              if n = 0 then files := (k, []) :: !files else pending_file := Some (k, n, [])
            | ["circuit"; n] ->
              pending_nodes := int_of_string n; circ := [];
              skip_nodes := int_of_string n > 5000;
              if !skip_nodes then lines := ("bigcircuit", [n]) :: !lines
            | kw :: toks -> lines := (kw, toks) :: !lines
            | [] -> ())
     done
   with End_of_file -> ())

let find (b : block) (kw : string) : string list option =
  List.assoc_opt kw b.lines

let find_all (b : block) (kw : string) : string list list =
  List.filter_map (fun (k, t) -> if k = kw then Some t else None) b.lines

(* "impl <key> <tokens>" lines *)
let impl (b : block) (key : string) : string list option =
  let rec go = function
    | ("impl", k :: t) :: _ when k = key -> Some t
    | _ :: r -> go r
    | [] -> None
  in
  go b.lines

let impl_all (b : block) (key : string) : string list list =
  List.filter_map (function ("impl", k :: t) when k = key -> Some t | _ -> None) b.lines

(* verdicts *)
type verdict =
  | Ok
  | Viol of string * string   (* signature, message: the implementation violates the property *)
  | Diff of string * string   (* what, message: model and implementation disagree *)

let stats : (string, int) Hashtbl.t = Hashtbl.create 16
let bump k = Hashtbl.replace stats k (1 + (try Hashtbl.find stats k with Not_found -> 0))
let bump_by k n = Hashtbl.replace stats k (n + (try Hashtbl.find stats k with Not_found -> 0))
