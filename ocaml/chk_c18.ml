(* C18: every reload (in-process and in separate processes) must give the same node vector and
   the same seeded sample lists.  Oracle = equality across loads (independent of any model). *)
open Blocks

let check (b : block) : verdict list =
  (* split the lines into loads *)
  let loads = ref [] and cur = ref None in
  List.iter (fun (kw, toks) ->
      match kw with
      | "reload" | "process" ->
        (match !cur with Some c -> loads := c :: !loads | None -> ());
        cur := Some (kw ^ " " ^ String.concat " " toks, [], [])
      | "dump" -> (match !cur with Some (n, _, s) -> cur := Some (n, toks, s) | None -> ())
      | "smp" -> (match !cur with Some (n, d, s) -> cur := Some (n, d, s @ [String.concat " " toks]) | None -> ())
      | "panic" -> (match !cur with Some (n, _, s) -> cur := Some (n, ["PANIC"], s) | None -> ())
      | _ -> ()) b.lines;
  (match !cur with Some c -> loads := c :: !loads | None -> ());
  let loads = List.rev !loads in
  match loads with
  | [] -> [Diff ("c18", "no loads recorded")]
  | (_, d0, s0) :: rest ->
    let out = ref [] in
    let dumps = List.sort_uniq compare (List.map (fun (_, d, _) -> d) loads) in
    if List.length dumps > 1 then
      out := Viol ("reload:node-order", Printf.sprintf "%d distinct node vectors over %d loads of the same file" (List.length dumps) (List.length loads)) :: !out;
    List.iter (fun (name, _, s) ->
        (* a child process answers only the first requests: compare the common prefix *)
        let rec prefix_eq a b = match a, b with
          | x :: a', y :: b' -> x = y && prefix_eq a' b'
          | _, _ -> true in
        if not (prefix_eq s0 s) then
          out := Viol ("reload:seeded-samples", Printf.sprintf "seeded sample lists differ between the first load and %s" name) :: !out) rest;
    if List.exists (fun (_, d, _) -> d = ["PANIC"]) loads then
      out := Viol ("load:panic", "a load panicked") :: !out;
    ignore d0;
    bump_by "loads_compared" (List.length loads);
    if !out = [] then [Ok] else [List.hd (List.rev !out)]

let kinds = ["C18", check]
