(* C12: clause-update / undo-update / save-cnf on a model loaded from a CNF.
   A case is a tree of histories in DFS pre-order (see harness/src/k_c12.rs).
   (i)  correspondence: the extracted clause-cache model (Mdl.ClauseCache.cc_step, record_all = false,
        loadable = "the CNF is satisfiable") against the implementation: answer class and error
        text, feature count, the save-cnf text line by line                        -> DIFF
   (ii) oracle, independent of the cache model: the abstract clause-set machine written here in
        OCaml (sets of sorted int lists) + brute-force truth table of its current clause set
        over its n: count / count a l / sat / core / boundary / save-cnf text after every step
                                                                                   -> VIOL
        cross-checked against the extracted Spec.CnfMachine (m_step, m_save)        -> DIFF
   (iii) the compiler contract (Section hypothesis of C12_answers) per observed live circuit:
        check_wf, no_dead and Models = models of the oracle's CNF                   -> DIFF *)
open Blocks

module CS = Set.Make (struct type t = int list let compare = compare end)

type ost = { cs : CS.t; n : int; prev : (CS.t * int) option }

let norm (c : int list) : int list = List.sort_uniq compare c
let uses_above t cls = List.exists (List.exists (fun l -> abs l > t)) cls

(* Some new state = accepted *)
let o_update (st : ost) (t : int option) (add : int list list) (rmv : int list list) : ost option =
  let ok_t, tgt = match t with
    | None -> true, st.n
    | Some tv -> (tv > 0 && not (uses_above tv (CS.elements st.cs))), tv in
  let rm = List.map norm rmv in
  let ok = ok_t
           && not (uses_above tgt (add @ rmv))
           && List.for_all (fun c -> CS.mem c st.cs) rm
           && List.length (List.sort_uniq compare rm) = List.length rm in
  if ok then
    Some { cs = CS.union (CS.diff st.cs (CS.of_list rm)) (CS.of_list (List.map norm add));
           n = tgt; prev = Some (st.cs, st.n) }
  else None

let o_undo (st : ost) : ost =
  match st.prev with
  | Some (pcs, pn) -> { cs = pcs; n = pn; prev = Some (st.cs, st.n) }
  | None -> st

let holds (m : int) (l : int) : bool =
  let bit = (m lsr (abs l - 1)) land 1 = 1 in
  if l > 0 then bit else not bit

let table (cls : int list list) (n : int) : int list =
  let r = ref [] in
  for m = (1 lsl n) - 1 downto 0 do
    if List.for_all (fun c -> List.exists (holds m) c) cls then r := m :: !r
  done;
  !r

let table_memo : (int list list * int, int list) Hashtbl.t = Hashtbl.create 1024
let table_of cls n =
  match Hashtbl.find_opt table_memo (cls, n) with
  | Some t -> t
  | None -> let t = table cls n in Hashtbl.replace table_memo (cls, n) t; t

let o_text (st : ost) : string list =
  Printf.sprintf "p cnf %d %d" st.n (CS.cardinal st.cs)
  :: List.map (fun c -> String.concat " " (List.map string_of_int c) ^ " 0") (CS.elements st.cs)

(* ---------- records ---------- *)
type ans = ANone | AOk | AErr of string | APanic of string

type obs = {
  on : int; count : string; cl : string list; sat : string; core : string; beyond : string;
  save_ok : bool; save_msg : string; sv : string list; ckt : string;
  cache : string option;   (* hook H7: total old_total old_n | edit_add | edit_rmv, canonical text *)
}

type step = { depth : int; cmd : string list; ans : ans; obs : obs }

let rec split_semi (toks : string list) : string list list =
  match toks with
  | [] -> []
  | _ ->
    let rec go acc = function
      | [] -> List.rev acc, []
      | ";" :: r -> List.rev acc, r
      | x :: r -> go (x :: acc) r in
    let h, r = go [] toks in
    h :: (match r with [] -> [] | _ -> split_semi r)

let empty_obs = { on = -1; count = ""; cl = []; sat = ""; core = ""; beyond = ""; save_ok = false;
                  save_msg = ""; sv = []; ckt = ""; cache = None }

let steps_of (b : block) : step list =
  let acc = ref [] and cur = ref None in
  let flush () = match !cur with Some s -> acc := s :: !acc | None -> () in
  List.iter (fun (kw, toks) ->
      match kw, toks with
      | "s", d :: cmd -> flush (); cur := Some { depth = int_of_string d; cmd; ans = ANone; obs = empty_obs }
      | "a", "ok" :: _ -> cur := Option.map (fun s -> { s with ans = AOk }) !cur
      | "a", "err" :: m -> cur := Option.map (fun s -> { s with ans = AErr (String.concat " " m) }) !cur
      | "a", "panic" :: m -> cur := Option.map (fun s -> { s with ans = APanic (String.concat " " m) }) !cur
      | "o", k :: v ->
        let upd o = match k with
          | "n" -> { o with on = int_of_string (List.hd v) }
          | "count" -> { o with count = String.concat " " v }
          | "cl" -> { o with cl = v }
          | "sat" -> { o with sat = String.concat " " v }
          | "core" -> { o with core = String.concat " " v }
          | "beyond" -> { o with beyond = String.concat " " v }
          | "save" -> (match v with
              | "ok" :: _ -> { o with save_ok = true }
              | _ :: m -> { o with save_ok = false; save_msg = String.concat " " m }
              | [] -> o)
          | _ -> o in
        cur := Option.map (fun s -> { s with obs = upd s.obs }) !cur
      | "sv", toks ->
        let lines = List.map (String.concat " ") (split_semi toks) in
        cur := Option.map (fun s -> { s with obs = { s.obs with sv = lines } }) !cur
      | "ckt", toks ->
        cur := Option.map (fun s -> { s with obs = { s.obs with ckt = String.concat " " toks } }) !cur
      | "cache", toks ->
        cur := Option.map (fun s -> { s with obs = { s.obs with cache = Some (String.concat " " toks) } }) !cur
      | _ -> ()) b.lines;
  flush ();
  List.rev !acc

(* ---------- commands ---------- *)
type pcmd = Update of int option * int list list * int list list | Undo | Other

let split_zero (nums : int list) : int list list =
  let rec go cur acc = function
    | [] -> List.rev (if cur = [] then acc else List.rev cur :: acc)
    | 0 :: r -> go [] (if cur = [] then acc else List.rev cur :: acc) r
    | x :: r -> go (x :: cur) acc r in
  go [] [] nums

let parse_cmd (toks : string list) : pcmd =
  match toks with
  | ["undo-update"] -> Undo
  | "clause-update" :: rest ->
    let t = ref None and add = ref [] and rmv = ref [] in
    let rec go = function
      | [] -> ()
      | "t" :: v :: r -> t := Some (int_of_string v); go r
      | ("add" | "rmv" as k) :: r ->
        let rec take acc = function
          | x :: r' when (match int_of_string_opt x with Some _ -> true | None -> false) -> take (int_of_string x :: acc) r'
          | r' -> List.rev acc, r' in
        let nums, r' = take [] r in
        (if k = "add" then add := split_zero nums else rmv := split_zero nums);
        go r'
      | _ :: r -> go r in
    go rest;
    Update (!t, !add, !rmv)
  | _ -> Other

let zz = Conv.zlist_of_ints
let model_cmd = function
  | Update (t, add, rmv) ->
    Mdl.CnfMachine.CUpdate ((match t with Some v -> Some (Conv.z_of_int v) | None -> None), List.map zz add, List.map zz rmv)
  | Undo -> Mdl.CnfMachine.CUndo
  | Other -> Mdl.CnfMachine.CSave

let err_prefix = function
  | Mdl.ClauseCache.E3_boundary -> "E3 error: not all parameters are within the boundary"
  | Mdl.ClauseCache.E4_total -> "E4 error: \"t\" must be set to a single positive number"
  | Mdl.ClauseCache.E5_conflict -> "E5 error: at least one clause is in conflict with the feature reduction"
  | Mdl.ClauseCache.E5_update -> "E5 error: could not update cached state"
  | Mdl.ClauseCache.E5_no_clauses -> "E5 error: clauses corresponding to the d-DNNF aren't available"
  | Mdl.ClauseCache.E5_no_undo -> "E5 error: could not perform undo"
  | Mdl.ClauseCache.E5_no_save -> "E5 error: cannot save as CNF because clauses are not available"

let starts_with p s = String.length s >= String.length p && String.sub s 0 (String.length p) = p

let loadable (cs : Model.z list list) (n : Model.nat) : bool =
  table_of (List.map Conv.ints_of_zlist cs) (Conv.int_of_nat n) <> []

let model_text (d : Mdl.ClauseCache.dstate) : string list option =
  match Mdl.ClauseCache.save_cnf d with
  | Mdl.ClauseCache.ASaved l -> Some (List.map Conv.ocaml_string l)
  | _ -> None

(* the bookkeeping of the model's cache in the text form of the harness' `cache` line *)
let model_cache_text (d : Mdl.ClauseCache.dstate) : string option =
  match d.Mdl.ClauseCache.cached with
  | None -> None
  | Some c ->
    let o = function Some n -> string_of_int (Conv.int_of_nat n) | None -> "-" in
    let l cs = String.concat " ; " (List.map (fun c -> String.concat " " (List.map string_of_int (Conv.ints_of_zlist c))) cs) in
    let parts = [o c.Mdl.ClauseCache.total; o c.Mdl.ClauseCache.old_total;
                 (match c.Mdl.ClauseCache.old with Some (_, n) -> string_of_int (Conv.int_of_nat n) | None -> "-");
                 "|"; l c.Mdl.ClauseCache.edit_add; "|"; l c.Mdl.ClauseCache.edit_rmv] in
    Some (String.concat " " (List.filter (fun x -> x <> "") parts))

(* ---------- the compiler contract, per distinct live circuit ---------- *)
let ckt_memo : (string * int, bool * bool * int list) Hashtbl.t = Hashtbl.create 1024
let circuit_facts (ckt : string) (n : int) : bool * bool * int list =
  match Hashtbl.find_opt ckt_memo (ckt, n) with
  | Some r -> r
  | None ->
    let nodes = List.map parse_node (split_semi (split_ws ckt)) in
    let nn = Conv.nat_of_int n in
    let wf = Model.check_wf nodes nn in
    let nd = Model.no_dead nodes in
    let ms = List.sort compare (List.map Chk_c01.mask_of_cfg (Model.models nodes nn)) in
    bump "compiler_contract_distinct_circuits";
    let r = (wf, nd, ms) in
    Hashtbl.replace ckt_memo (ckt, n) r; r

(* ---------- expected observation of an oracle state ---------- *)
let expected_core (tbl : int list) (n : int) : string =
  let lits = List.concat_map (fun v -> [v; -v]) (List.init n (fun i -> i + 1)) in
  let fixed = List.filter (fun l -> List.for_all (fun m -> holds m l) tbl) lits in
  match List.sort compare fixed with
  | [] -> "-"
  | l -> String.concat " " (List.map string_of_int l)

(* which observable differs, if any: ("answers" | "save", message) *)
let compare_obs (st : ost) (o : obs) : (string * string) option =
  let tbl = table_of (CS.elements st.cs) st.n in
  let cnt a = List.length (List.filter (fun m -> List.for_all (holds m) a) tbl) in
  let first = ref None in
  let set k m = if !first = None then first := Some (k, m) in
  if o.on <> st.n then set "answers" (Printf.sprintf "feature count %d, expected %d" o.on st.n);
  if o.count <> string_of_int (cnt []) then
    set "answers" (Printf.sprintf "count = %s, the CNF has %d models" o.count (cnt []));
  let exp_cl = List.concat_map (fun v -> [string_of_int (cnt [v]); string_of_int (cnt [-v])])
      (List.init st.n (fun i -> i + 1)) in
  if o.cl <> exp_cl then
    set "answers" (Printf.sprintf "count a l for l = 1,-1,2,.. = [%s], expected [%s]"
                     (String.concat " " o.cl) (String.concat " " exp_cl));
  let exp_sat = if tbl <> [] then "true" else "false" in
  if o.sat <> exp_sat then set "answers" (Printf.sprintf "sat = %s, expected %s" o.sat exp_sat);
  if tbl <> [] && o.core <> expected_core tbl st.n then
    set "answers" (Printf.sprintf "core = [%s], expected [%s]" o.core (expected_core tbl st.n));
  if o.beyond <> "E3" then
    set "answers" (Printf.sprintf "count a %d is answered (%s): the feature count is not %d" (st.n + 1) o.beyond st.n);
  if not o.save_ok then set "save" ("save-cnf failed: " ^ o.save_msg)
  else if o.sv <> o_text st then
    set "save" (Printf.sprintf "save-cnf wrote [%s], the current clause set and feature count are [%s]"
                  (String.concat " / " o.sv) (String.concat " / " (o_text st)));
  !first

let same_obs (a : obs) (b : obs) : bool =
  a.on = b.on && a.count = b.count && a.cl = b.cl && a.sat = b.sat && a.core = b.core
  && a.beyond = b.beyond && a.save_ok = b.save_ok && a.sv = b.sv

let check (b : block) : verdict list =
  let n0 = Chk_c01.int_n b in
  let raw = match find b "start" with
    | Some toks -> List.map (List.map int_of_string) (split_semi toks)
    | None -> [] in
  let steps = steps_of b in
  let out = ref [] in
  let nverd = ref 0 in
  let seen_sig = Hashtbl.create 8 in
  (* at most one verdict per signature and case (a tree repeats the same failure many times) *)
  let add v =
    let key = match v with Viol (s, _) -> "V" ^ s | Diff (s, _) -> "D" ^ s | Ok -> "ok" in
    if not (Hashtbl.mem seen_sig key) then begin
      Hashtbl.replace seen_sig key ();
      incr nverd; if !nverd <= 8 then out := v :: !out
    end in
  (match impl b "standin" with
   | Some [v; bad] ->
     bump_by "standin_outputs_validated_by_truth_table" (int_of_string v);
     if int_of_string bad > 0 then
       add (Diff ("standin-invalid", "the stand-in compiler produced a d4 text that is not equivalent to its CNF: "
                                     ^ String.concat " " (Option.value (find b "standinbad") ~default:[])))
   | _ -> ());
  (match steps with
   | [] -> add (Diff ("format", "no step records"))
   | s0 :: rest ->
     (match s0.ans with
      | APanic msg ->
        bump "load_panics";
        if table_of raw n0 = [] then
          add (Viol ("clause-update:unsat-panic", "loading an unsatisfiable CNF panicked: " ^ msg))
        else add (Viol ("load:panic", "loading a satisfiable CNF panicked: " ^ msg))
      | _ ->
        let o0 = s0.obs in
        if not o0.save_ok then begin
          bump "no_clause_cache";
          (* no clause cache although the model was loaded from a CNF: K14, repaired by F9 (Ddnnf::new
             attaches the cache to every CNF input) - a DETECTOR without finding line since then *)
          add (Viol ("save-cnf:no-clause-cache",
                     Printf.sprintf "model loaded from the CNF [%s] over %d features: save-cnf answers \"%s\" (and clause-update is refused): the stored clause set is empty, so Ddnnf::new creates no clause cache"
                       (String.concat " / " (List.map (fun c -> String.concat " " (List.map string_of_int c)) raw)) n0 o0.save_msg));
          (* diagnosis: does the implementation behave like the loader BEFORE F9 (load_cnf_v0: no
             cache for an empty stored set)?  every command once from the loaded state *)
          (match Mdl.ClauseCache.load_cnf_v0 loadable (List.map zz raw) (Conv.nat_of_int n0) with
           | None -> add (Diff ("load", "the model says loading panics but the implementation loaded the CNF"))
           | Some d0 ->
             if Mdl.ClauseCache.save_cnf d0 <> Mdl.ClauseCache.AErr Mdl.ClauseCache.E5_no_save then
               add (Diff ("initial-save", "the model of the loader before F9 has a clause cache as well, the implementation has none"));
             List.iter (fun s ->
                 if s.depth = 1 then begin
                   let pc = parse_cmd s.cmd in
                   let (_, a) = Mdl.ClauseCache.cc_step false loadable d0 (model_cmd pc) in
                   bump "model_steps_compared";
                   let agree = match a, s.ans with
                     | Mdl.ClauseCache.AOk, AOk -> true
                     | Mdl.ClauseCache.APanic, APanic _ -> true
                     | Mdl.ClauseCache.AErr e, AErr m -> starts_with (err_prefix e) m
                     | _ -> false in
                   if pc <> Other && not agree then
                     add (Diff ("answer", Printf.sprintf "no clause cache, [%s]: model and implementation answer differently (%s)"
                                  (String.concat " " s.cmd)
                                  (match s.ans with AOk -> "ok" | AErr m -> m | APanic m -> "panic " ^ m | ANone -> "-")))
                 end) rest)
        end else begin
          (* ---- the initial state ---- *)
          let stored =
            List.filter_map (fun l -> match split_ws l with
                | "p" :: _ -> None
                | toks -> (match List.rev (List.map int_of_string toks) with 0 :: r -> Some (List.rev r) | _ -> None))
              o0.sv in
          let st0 = { cs = CS.of_list (List.map norm stored); n = o0.on; prev = None } in
          (* save-cnf after loading: logically equivalent to the input, same feature count *)
          if o0.on <> n0 then
            add (Viol ("save-cnf:not-equivalent", Printf.sprintf "the loaded model has %d features, the CNF header says %d" o0.on n0));
          if table_of (CS.elements st0.cs) n0 <> table_of raw n0 then
            add (Viol ("save-cnf:not-equivalent",
                       Printf.sprintf "save-cnf after loading wrote [%s]: not equivalent to the input CNF" (String.concat " / " o0.sv)));
          bump "initial_saves_equivalent_to_input";
          if List.sort compare (List.map norm (List.filter (fun c -> not (List.exists (fun l -> List.mem (-l) c) c)) raw))
             <> CS.elements st0.cs then bump "initial_saves_differing_from_input_clauses";
          (* the model's stored set *)
          (* the loader of the model (after F9: a cache for every CNF input, C12_load_has_cache) *)
          let md0 = Mdl.ClauseCache.load_cnf loadable (List.map zz raw) (Conv.nat_of_int n0) in
          (match md0 with
           | None -> add (Diff ("load", "the model says loading panics (unsatisfiable input) but the implementation loaded it"))
           | Some d0 ->
             if model_text d0 <> Some o0.sv then
               add (Diff ("initial-save", Printf.sprintf "save-cnf after loading: model [%s] impl [%s]"
                            (String.concat " / " (Option.value (model_text d0) ~default:["(error)"])) (String.concat " / " o0.sv)));
             (match compare_obs st0 o0 with
              | Some (_, m) -> add (Viol ("clause-update:wrong-answers", "right after loading: " ^ m))
              | None -> ());
             (* ---- the tree ---- *)
             let maxd = 64 in
             let ost = Array.make maxd st0 in
             let mst = Array.make maxd (Some d0) in
             let mm = Array.make maxd (Mdl.CnfMachine.m_init (List.map zz (CS.elements st0.cs)) (Conv.nat_of_int st0.n)) in
             let iobs = Array.make maxd o0 in
             let dead = Array.make maxd false in      (* below a panic / unknown command *)
             let path = Array.make maxd "" in
             let hist k = String.concat " | " (Array.to_list (Array.sub path 1 k)) in
             let contract k (st : ost) (o : obs) =
               if o.ckt <> "" then begin
                 let (wf, nd, ms) = circuit_facts o.ckt o.on in
                 bump "compiler_contract_checks";
                 if not wf then add (Diff ("compile-contract", Printf.sprintf "after [%s]: the live circuit is rejected by check_wf" (hist k)))
                 else if ms <> table_of (CS.elements st.cs) st.n && o.on = st.n then
                   add (Diff ("compile-contract", Printf.sprintf "after [%s]: Models of the live circuit differ from the models of the current CNF" (hist k)))
                 else if not nd then bump "live_circuits_with_dead_nodes"
               end in
             contract 0 st0 o0;
             List.iter (fun s ->
                 let k = s.depth in
                 if k >= 1 && k < maxd && not dead.(k - 1) then begin
                   dead.(k) <- false;
                   path.(k) <- String.concat " " s.cmd;
                   bump "steps";
                   let pc = parse_cmd s.cmd in
                   let parent = ost.(k - 1) in
                   let h = hist k in
                   (* ---------- oracle ---------- *)
                   let expected, accepted = match pc with
                     | Update (t, ad, rm) ->
                       (match o_update parent t ad rm with Some st -> st, true | None -> parent, false)
                     | Undo -> o_undo parent, true
                     | Other -> parent, false in
                   ost.(k) <- expected;
                   iobs.(k) <- s.obs;
                   (* extracted CnfMachine agrees with the machine written here *)
                   let m' = Mdl.CnfMachine.m_step mm.(k - 1) (model_cmd pc) in
                   mm.(k) <- m';
                   if List.map Conv.ocaml_string (Mdl.CnfMachine.m_save m') <> o_text expected then
                     add (Diff ("machine", Printf.sprintf "after [%s]: extracted CnfMachine prints [%s], the OCaml machine [%s]" h
                                  (String.concat " / " (List.map Conv.ocaml_string (Mdl.CnfMachine.m_save m'))) (String.concat " / " (o_text expected))));
                   let unsat_after = table_of (CS.elements expected.cs) expected.n = [] in
                   (match pc, s.ans with
                    | Other, _ -> dead.(k) <- true; add (Diff ("format", "unknown command " ^ path.(k)))
                    | _, APanic msg ->
                      dead.(k) <- true;
                      bump "panics";
                      if accepted && unsat_after && pc <> Undo then begin
                        bump "unsat_update_panics";
                        add (Viol ("clause-update:unsat-panic",
                                   Printf.sprintf "history [%s] on CNF [%s] (%d features): the update makes the formula unsatisfiable and panics (%s); afterwards save-cnf writes [%s] while count answers %s"
                                     h (String.concat " / " (List.tl (o_text st0))) st0.n msg (String.concat " / " s.obs.sv) s.obs.count))
                      end else
                        add (Viol ("clause-update:panic", Printf.sprintf "history [%s]: panic: %s" h msg))
                    | Update _, AOk when not accepted ->
                      bump "accepted";
                      add (Viol ("clause-update:accepted-invalid",
                                 Printf.sprintf "history [%s]: the last update must be rejected (absent/repeated rmv clause, t below a used variable or literal above the feature count) but was accepted" h))
                    | Update _, AErr m when accepted ->
                      bump "rejected";
                      add (Viol ("clause-update:rejected-valid", Printf.sprintf "history [%s]: a valid update was rejected: %s" h m));
                      if not (same_obs s.obs iobs.(k - 1)) then
                        add (Viol ("clause-update:rejected-changed-state", Printf.sprintf "history [%s]: the rejected update changed the state" h));
                      (* continue below with the implementation's view *)
                      ost.(k) <- parent
                    | Update _, AErr _ ->
                      bump "rejected";
                      if not (same_obs s.obs iobs.(k - 1)) then
                        add (Viol ("clause-update:rejected-changed-state",
                                   Printf.sprintf "history [%s]: the rejected update changed the observable state: %s" h
                                     (match compare_obs parent s.obs with Some (_, m) -> m | None -> "observation differs from the one before")))
                      else (match compare_obs parent s.obs with
                          | Some (_, m) -> add (Viol ("clause-update:rejected-changed-state", Printf.sprintf "history [%s]: %s" h m))
                          | None -> ())
                    | Undo, AErr m -> add (Viol ("undo:wrong-state", Printf.sprintf "history [%s]: undo-update answered %s" h m))
                    | _, (AOk | ANone) ->
                      bump (if pc = Undo then "undos" else "accepted");
                      (match compare_obs expected s.obs with
                       | Some (kind, m) ->
                         let sg = if pc = Undo then "undo:wrong-state"
                           else if kind = "save" then "save-cnf:wrong-clauses" else "clause-update:wrong-answers" in
                         add (Viol (sg, Printf.sprintf "history [%s] on CNF [%s] (%d features): %s" h
                                      (String.concat " / " (List.tl (o_text st0))) st0.n m))
                       | None -> ());
                      contract k expected s.obs);
                   (* ---------- extracted model vs implementation ---------- *)
                   (match mst.(k - 1), pc with
                    | Some d, (Update _ | Undo) ->
                      let (d', a) = Mdl.ClauseCache.cc_step false loadable d (model_cmd pc) in
                      mst.(k) <- Some d';
                      let descr = match a with
                        | Mdl.ClauseCache.AOk -> "ok" | Mdl.ClauseCache.APanic -> "panic" | Mdl.ClauseCache.ASaved _ -> "saved"
                        | Mdl.ClauseCache.AErr e -> err_prefix e in
                      let agree = match a, s.ans with
                        | Mdl.ClauseCache.AOk, AOk -> true
                        | Mdl.ClauseCache.APanic, APanic _ -> true
                        | Mdl.ClauseCache.AErr e, AErr m -> starts_with (err_prefix e) m
                        | _ -> false in
                      if not agree then
                        add (Diff ("answer", Printf.sprintf "history [%s]: model answers [%s], implementation [%s]" h descr
                                     (match s.ans with AOk -> "ok" | AErr m -> m | APanic m -> "panic " ^ m | ANone -> "-")));
                      bump "model_steps_compared";
                      (match model_text d' with
                       | Some l when s.obs.save_ok ->
                         if l <> s.obs.sv then
                           add (Diff ("save-cnf-text", Printf.sprintf "history [%s]: model writes [%s], implementation [%s]" h
                                        (String.concat " / " l) (String.concat " / " s.obs.sv)))
                       | _ -> add (Diff ("save-cnf-text", Printf.sprintf "history [%s]: save-cnf failed in the model or the implementation" h)));
                      (match s.obs.cache with
                       | Some txt ->
                         bump "cache_bookkeeping_compared";
                         if model_cache_text d' <> Some txt then
                           add (Diff ("cache-bookkeeping", Printf.sprintf
                                        "history [%s]: total old_total old_state_n | edit_add | edit_rmv: model [%s], implementation [%s]" h
                                        (Option.value (model_cache_text d') ~default:"(no cache)") txt))
                       | None -> ());
                      if Conv.int_of_nat (snd d'.Mdl.ClauseCache.live_of) <> s.obs.on then
                        add (Diff ("feature-count", Printf.sprintf "history [%s]: model %d implementation %d" h
                                     (Conv.int_of_nat (snd d'.Mdl.ClauseCache.live_of)) s.obs.on))
                    | _ -> mst.(k) <- None)
                 end else if k >= 1 && k < maxd then dead.(k) <- true) rest
          )
        end));
  if !out = [] then [Ok] else List.rev !out

let kinds = ["C12", check]
