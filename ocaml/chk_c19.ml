(* C19: CNF export.
   correspondence: the extracted to_cnf (the code after the repair F20: constants and childless
     operations are empty operations with a Tseitin variable of their own) on the dumped node
     vector = the implementation's clause list (exact: clause order and literal order) and
     num_variables.  Vectors with true / false nodes and childless and/or nodes (the classes of
     the repaired findings K5 and K10) are ordinary compared cases and are counted in STAT lines.
     If the implementation panics, that is a violation (the property demands a CNF for every
     loaded model); the panic site is then compared with to_cnf_v0 (the code before the repair),
     so that a run against an unrepaired tree reports the old signatures and nothing else.
   oracle (independent of the model): an exact model counter (DPLL + unit propagation, total
     assignments over the DECLARED variables 1..V) on the implementation's clauses, compared with
     the source formula's model count; the projection of the CNF's models onto 1..n must be the
     source model set with every model hit exactly once; the printed text's header must declare
     the number of clause lines and of distinct variables the text contains (and no variable may
     exceed the declared count). *)
open Blocks

let int_n b = match find b "n" with Some [n] -> int_of_string n | _ -> failwith "no n"

(* ---------- a small exact model counter / enumerator ---------- *)

exception Conflict
exception Too_many

(* calls [leaf a] for every total assignment a.(1..nv) (1 / -1) satisfying all clauses *)
let iter_models (nv : int) (cls : int array array) (leaf : int array -> unit) : unit =
  let a = Array.make (nv + 1) 0 in
  let trail = ref [] in
  let assign l =
    let v = abs l in
    a.(v) <- (if l > 0 then 1 else -1);
    trail := v :: !trail in
  let undo_to mark =
    while !trail != mark do
      (match !trail with v :: r -> a.(v) <- 0; trail := r | [] -> ())
    done in
  let value l = let x = a.(abs l) in if l > 0 then x else - x in
  let propagate () =
    let changed = ref true in
    while !changed do
      changed := false;
      Array.iter (fun c ->
          let sat = ref false and unassigned = ref 0 and last = ref 0 in
          Array.iter (fun l ->
              let x = value l in
              if x = 1 then sat := true
              else if x = 0 then (incr unassigned; last := l)) c;
          if not !sat then begin
            if !unassigned = 0 then raise Conflict;
            (* a clause may mention the same unassigned literal twice; still unit only if one slot *)
            if !unassigned = 1 then (assign !last; changed := true)
          end) cls
    done in
  let rec go v =
    (* lowest unassigned variable >= v *)
    let v = ref v in
    while !v <= nv && a.(!v) <> 0 do incr v done;
    if !v > nv then leaf a
    else begin
      let x = !v in
      List.iter (fun l ->
          let mark = !trail in
          (try assign l; propagate (); go (x + 1) with Conflict -> ());
          undo_to mark) [x; - x]
    end in
  (* literals outside 1..nv cannot be assigned: such a clause list is rejected by the caller *)
  let mark = !trail in
  (try propagate (); go 1 with Conflict -> ());
  undo_to mark

let count_models nv cls =
  let k = ref 0 in
  iter_models nv cls (fun _ -> incr k);
  !k

(* brute force over all 2^nv assignments: cross-check of the counter itself *)
let brute_count nv (cls : int array array) =
  let k = ref 0 in
  for m = 0 to (1 lsl nv) - 1 do
    let value l = let v = abs l in let t = (m lsr (v - 1)) land 1 = 1 in if l > 0 then t else not t in
    if Array.for_all (fun c -> Array.exists value c) cls then incr k
  done;
  !k

(* the first node of the vector on which the walk of Cnf::from could not continue BEFORE the
   repair F20 (classification of an implementation panic; input-class statistics) *)
let first_offender (c : Model.ntype list) : string option =
  List.find_map (function
      | Model.TrueN -> Some "true-node"
      | Model.FalseN -> Some "false-node"
      | Model.And [] | Model.Or [] -> Some "empty-operation"
      | _ -> None) c

let panic_name = function
  | Model.PanicTrue -> "true-node" | Model.PanicFalse -> "false-node"
  | Model.PanicEmptyOp -> "empty-operation" | Model.PanicIndex -> "index"

let show_clauses cls =
  String.concat " | " (List.map (fun c -> String.concat " " (List.map string_of_int c)) cls)

let check (b : block) : verdict list =
  match impl b "loadpanic" with
  | Some msg -> [Diff ("load", "loading a generated file panicked (C01's concern): " ^ String.concat " " msg)]
  | None ->
    let n = int_n b in
    let c = b.circuit in
    let out = ref [] in
    let add v = out := v :: !out in
    let model = Model.to_cnf c (Conv.nat_of_int n) in
    (* input classes of the repaired findings K5 / K10 (ordinary cases since F20) *)
    let has p = List.exists p c in
    let cls_true = has (function Model.TrueN -> true | _ -> false)
    and cls_false = has (function Model.FalseN -> true | _ -> false)
    and cls_and0 = has (function Model.And [] -> true | _ -> false)
    and cls_or0 = has (function Model.Or [] -> true | _ -> false) in
    if cls_true then bump "class_true_node";
    if cls_false then bump "class_false_node";
    if cls_and0 then bump "class_childless_and";
    if cls_or0 then bump "class_childless_or";
    if cls_true || cls_false || cls_and0 || cls_or0 then bump "class_any_constant" else bump "class_no_constant";
    let constant_class = cls_true || cls_false || cls_and0 || cls_or0 in
    (* the hypotheses of the C19 theorems (WF, all_reachable), discharged per input by the verified checker *)
    if Model.check_wf c (Conv.nat_of_int n) then bump "theorem_hypotheses_check_wf_accepted"
    else add (Diff ("check_wf", "loaded vector rejected by check_wf (hypothesis of the C19 theorems)"));
    (match impl b "panic" with
     | Some msg ->
       let msg = String.concat " " msg in
       bump "impl_panics";
       (* the property demands a CNF for every loaded model *)
       let off = first_offender c in
       (match off with
        | Some "true-node" ->
          add (Viol ("to_cnf:true-node", Printf.sprintf "Cnf::from panicked on a circuit with a true node (%s)" msg))
        | Some "false-node" ->
          add (Viol ("to_cnf:false-node", Printf.sprintf "Cnf::from panicked on a circuit with a false node (%s)" msg))
        | Some "empty-operation" ->
          add (Viol ("to_cnf:empty-operation", Printf.sprintf
                       "Cnf::from panicked on a circuit with a childless and/or node (dead branch) (%s)" msg))
        | _ -> add (Viol ("to_cnf:panic", Printf.sprintf "Cnf::from panicked (%s)" msg)));
       (* the repaired model never panics on these vectors; an implementation that still does is
          the code before the repair F20: its panic site must be the one of to_cnf_v0 *)
       (match Model.to_cnf_v0 c (Conv.nat_of_int n) with
        | Model.Panic p ->
          bump ("impl_panics_like_v0_" ^ panic_name p);
          let expected = (match off with Some o -> o = panic_name p | None -> false) in
          if not expected then add (Diff ("panic-site", "to_cnf_v0 panics with " ^ panic_name p ^ ", impl: " ^ msg))
        | Model.Ok _ -> add (Diff ("panic", "implementation panicked (" ^ msg ^ ") but neither to_cnf nor to_cnf_v0 does")))
     | None ->
       let impl_cls = List.map (List.map int_of_string) (impl_all b "clause") in
       let impl_nv, impl_nc = match impl b "header" with
         | Some [v; k] -> int_of_string v, int_of_string k | _ -> failwith "no impl header" in
       (* ---- correspondence: model = implementation, exactly ---- *)
       (match model with
        | Model.Panic p ->
          add (Diff ("panic", "model panics with " ^ panic_name p ^ " but the implementation returned a CNF"))
        | Model.Ok f ->
          let m_cls = List.map Conv.ints_of_zlist f.Model.clauses in
          let (hv, hc) = Model.header_of f in
          let m_nv = Conv.int_of_nat hv and m_nc = Conv.int_of_nat hc in
          bump "clause_lists_compared";
          if constant_class then bump "clause_lists_compared_constant_classes";
          bump_by "clauses_compared" (List.length m_cls);
          if m_cls <> impl_cls then
            add (Diff ("clauses", Printf.sprintf "clause lists differ: model [%s] impl [%s]"
                         (show_clauses m_cls) (show_clauses impl_cls)));
          if m_nv <> impl_nv || m_nc <> impl_nc then
            add (Diff ("header", Printf.sprintf "header numbers differ: model %d %d impl %d %d" m_nv m_nc impl_nv impl_nc)));
       (* ---- oracle 1: the printed text declares what it contains ---- *)
       let text = try List.assoc "cnftext" b.files with Not_found -> [] in
       let text_cls = ref [] and hdr = ref None in
       List.iter (fun l ->
           match split_ws l with
           | ["p"; "cnf"; v; k] -> hdr := Some (int_of_string v, int_of_string k)
           | [] -> ()
           | toks ->
             let nums = List.map int_of_string toks in
             (match List.rev nums with
              | 0 :: r -> text_cls := List.rev r :: !text_cls
              | _ -> add (Viol ("to_cnf:header", "clause line without terminating 0: " ^ l)))) text;
       let text_cls = List.rev !text_cls in
       let vars = List.sort_uniq compare (List.concat_map (List.map abs) text_cls) in
       let maxv = List.fold_left max 0 vars in
       (match !hdr with
        | None -> add (Viol ("to_cnf:header", "no header line in the printed CNF"))
        | Some (v, k) ->
          bump "headers_checked";
          if (match impl b "headerline" with Some t -> String.concat " " t <> Printf.sprintf "p cnf %d %d" v k | None -> true)
          then add (Viol ("to_cnf:header", "first line of the text is not the header"));
          if k <> List.length text_cls then
            add (Viol ("to_cnf:header", Printf.sprintf "header declares %d clauses, the text has %d" k (List.length text_cls)));
          if v <> List.length vars || maxv > v then
            add (Viol ("to_cnf:header", Printf.sprintf
                         "header declares %d variables, the text has %d distinct variables, largest %d" v (List.length vars) maxv));
          if v <> impl_nv || k <> impl_nc || text_cls <> impl_cls then
            add (Viol ("to_cnf:header", "the printed text is not the Cnf value (num_variables / clauses differ)"));
          if List.mem 0 vars then add (Viol ("to_cnf:header", "literal 0 inside a clause")));
       (* ---- oracle 2: model count and projection ---- *)
       let declared = match !hdr with Some (v, _) -> v | None -> impl_nv in
       if maxv <= declared && not (List.mem 0 vars) && declared >= 0 then begin
         let cls = Array.of_list (List.map Array.of_list impl_cls) in
         let src_count = match find b "src_count" with Some [sc] -> Some sc | _ -> None in
         let expected, indep = match src_count with
           | Some sc -> sc, true
           | None -> Conv.dec_of_z (Model.root_count c), false in
         bump (if indep then "count_vs_source_truth_table" else "count_vs_root_count");
         let want_proj = match find b "src_models" with Some ms when n <= 10 -> Some ms | _ -> None in
         let proj = ref [] and cnt = ref 0 in
         (try
            iter_models declared cls (fun a ->
                incr cnt;
                if !cnt > 5_000_000 then raise Too_many;
                if want_proj <> None then begin
                  let m = ref 0 in
                  for v = 1 to min n declared do if a.(v) = 1 then m := !m lor (1 lsl (v - 1)) done;
                  proj := !m :: !proj
                end);
            bump "cnfs_counted";
            if constant_class then bump "cnfs_counted_constant_classes";
            if string_of_int !cnt <> expected then
              add (Viol ("to_cnf:count", Printf.sprintf
                           "the CNF has %d models over its %d declared variables, the model has %s" !cnt declared expected));
            if declared <= 12 then begin
              bump "brute_force_crosschecks";
              let bc = brute_count declared cls in
              if bc <> !cnt then add (Diff ("counter", Printf.sprintf "DPLL counter %d, brute force %d" !cnt bc))
            end;
            (match want_proj with
             | Some ms ->
               bump "projections_compared";
               let src = List.sort compare (List.map int_of_string ms) in
               let mine = List.sort compare !proj in
               if mine <> src then begin
                 let uniq = List.sort_uniq compare mine in
                 let what =
                   if uniq = src then "some model of the d-DNNF is extended in more than one way"
                   else if List.length uniq < List.length mine then "different model set, and some projection occurs twice"
                   else "the projection onto 1..n is a different model set" in
                 add (Viol ("to_cnf:projection", Printf.sprintf "%s (%d CNF models, %d distinct projections, %d source models)"
                              what (List.length mine) (List.length uniq) (List.length src)))
               end
             | None -> ())
          with Too_many -> bump "count_skipped_too_many")
       end);
    if !out = [] then [Ok] else List.rev !out

let kinds = ["C19", check]
