(* C08 atomic sets.
   Correspondence: the extracted Mdl.Atomic.get_atomic_sets, threaded through one scratch state and fed
   with the recorded choices of the implementation's internal 512-sample call, must return exactly
   the implementation's list of lists (DIFF otherwise).
   Oracle (independent of the model): brute-force partition of the truth table rows that contain the
   assumptions, restricted to the candidates. *)
open Blocks
open Chk_ops

let parse_sets (toks : string list) : int list list =
  match toks with
  | ["empty"] -> []
  | _ -> List.map ints (split_on ";" toks)

let show_sets (l : int list list) : string =
  if l = [] then "empty"
  else String.concat " ; " (List.map (fun c -> String.concat " " (List.map string_of_int c)) l)

let rec has_dup = function [] -> false | x :: r -> List.mem x r || has_dup r

(* classes (>= 2 members) of the literals `lits` under "same value in every row of ta" *)
let partition (value : int -> int -> bool) (ta : int list) (lits : int list) : int list list =
  let key l = List.map (fun m -> value m l) ta in
  let tbl = Hashtbl.create 16 in
  List.iter (fun l ->
      let k = key l in
      Hashtbl.replace tbl k (l :: (try Hashtbl.find tbl k with Not_found -> []))) lits;
  Hashtbl.fold (fun _ c acc -> if List.length c >= 2 then List.sort compare c :: acc else acc) tbl []

(* cross mode: a class up to negating all members -> members by feature, first one negative *)
let normalize_cross (c : int list) : int list =
  let c = List.sort (fun a b -> compare (abs a, a) (abs b, b)) c in
  match c with
  | x :: _ when x > 0 -> List.map (fun l -> -l) c
  | _ -> c

let judge ~(value : int -> int -> bool) ~(ta : int list) ~(cands : int list) ~(cross : bool)
    ~(opdesc : string) ~(big : bool) (ir : int list list) : verdict list =
  let out = ref [] in
  let add v = out := v :: !out in
  let wrong_sig what = if big then "atomic:feature-id>=32768" else what in
  if not cross then begin
    let exp = List.sort compare (partition value ta cands) in
    let got = List.sort compare ir in
    if List.exists (fun c -> List.sort compare c <> c) ir then
      add (Viol (wrong_sig "atomic:wrong-partition", Printf.sprintf "[%s] a reported set is not in ascending order: {%s}" opdesc (show_sets ir)))
    else if exp <> got then
      add (Viol (wrong_sig "atomic:wrong-partition",
                 Printf.sprintf "[%s] reported {%s}; the classes of candidates with equal value in every model containing the assumptions are {%s}"
                   opdesc (show_sets ir) (show_sets exp)))
  end else begin
    let lits = List.concat_map (fun f -> [f; -f]) cands in
    let exp = List.sort_uniq compare (List.map normalize_cross (partition value ta lits)) in
    let gotn = List.map normalize_cross ir in
    if has_dup gotn || List.sort compare gotn <> exp then
      add (Viol (wrong_sig "atomic:wrong-cross-partition",
                 Printf.sprintf "[%s] reported {%s}; the classes of signed literals (one per mirrored pair) are {%s}"
                   opdesc (show_sets ir) (show_sets exp)))
  end;
  !out

(* the recorded choices; unary naturals are shared through a table (a 512-element shuffle would
   otherwise allocate ~130 000 constructors) *)
let nat_table : Model.nat array ref = ref [| Model.O |]
let nat_of (i : int) : Model.nat =
  if i >= Array.length !nat_table then begin
    let old = !nat_table in
    let len = max (i + 1) (2 * Array.length old) in
    let a = Array.make len Model.O in
    Array.blit old 0 a 0 (Array.length old);
    for k = Array.length old to len - 1 do a.(k) <- Model.S a.(k - 1) done;
    nat_table := a
  end;
  !nat_table.(i)

let parse_choices (toks : string list) : Model.choice list =
  if toks = [] then [] else
  List.map (function
      | "S" :: v -> Model.Split (List.map (fun x -> Conv.z_of_int (int_of_string x)) v)
      | "P" :: p -> Model.Perm (List.map (fun x -> nat_of (int_of_string x)) p)
      | _ -> failwith "bad choice") (split_on ";" toks)

let parse_op (args : string list) : (bool * int list option * int list) option =
  match split_on "|" args with
  | [[cr]; c; a] ->
    let cands = match c with ["all"] -> None | _ -> Some (ints c) in
    Some (cr = "1", cands, ints a)
  | _ -> None

(* raw lines of one op (the `ch` line is needed) *)
let rec ops_with_lines (lines : (string * string list) list) =
  match lines with
  | [] -> []
  | ("op", t) :: rest ->
    let rec take acc = function
      | (("op", _) :: _) as r -> (List.rev acc, r)
      | x :: r -> take (x :: acc) r
      | [] -> (List.rev acc, []) in
    let (mine, rest') = take [] rest in
    (t, mine) :: ops_with_lines rest'
  | _ :: rest -> ops_with_lines rest

let check (b : block) : verdict list =
  match impl b "panic" with
  | Some msg -> [Viol ("load:panic", "loading panicked: " ^ String.concat " " msg)]
  | None ->
    let n = Chk_c01.int_n b in
    let nn = Conv.nat_of_int n in
    let c = b.circuit in
    let d = Model.build c nn in
    let st = ref (Model.fresh_scratch c) in
    let tbl = table b n in
    let out = ref [] in
    let add v = out := v :: !out in
    List.iter (fun (op, lines) ->
        let name = List.hd op and args = List.tl op in
        let opdesc = String.concat " " op in
        let find k = List.assoc_opt k lines in
        match parse_op args with
        | None -> add (Diff ("atomic", "bad op line " ^ opdesc))
        | Some (cross, cands, a) ->
          let pan = Option.map (String.concat " ") (find "panic") in
          let res = find "r" in
          let is_error = (match res with Some ("error" :: _) -> true | _ -> false) in
          let chs = match find "ch" with Some t -> parse_choices t | None -> [] in
          let zc = Option.map Conv.zlist_of_ints cands in
          let ((s', mr), ok) = Mdl.Atomic.get_atomic_sets d zc (Conv.zlist_of_ints a) cross chs !st in
          st := s';
          let mr = Option.map (List.map Conv.ints_of_zlist) mr in
          bump (if cross then "atomic_cross_requests" else "atomic_plain_requests");
          if name = "atomic-stream" then bump "atomic_stream_requests";
          let cand_list = match cands with Some l -> l | None -> List.init n (fun i -> i + 1) in
          let valid = not (has_dup cand_list) && List.for_all (fun f -> f >= 1 && f <= n) cand_list
                      && List.for_all (fun l -> abs l >= 1 && abs l <= n) a && n <= 32767 in
          (* model = implementation *)
          (match pan, res, mr with
           | Some msg, _, Some m ->
             add (Diff ("atomic", Printf.sprintf "[%s] implementation panicked (%s), model answers {%s}" opdesc msg (show_sets m)))
           | Some _, _, None -> bump "atomic_panic_agreed"
           | None, Some _, _ when is_error -> add (Diff ("atomic", Printf.sprintf "[%s] stream error: %s" opdesc (String.concat " " (Option.get res))))
           | None, Some r, Some m ->
             let ir = parse_sets r in
             if ir <> m then
               add (Diff ("atomic", Printf.sprintf "[%s] model {%s} impl {%s}" opdesc (show_sets m) (show_sets ir)));
             if not ok then add (Diff ("atomic-choices", Printf.sprintf "[%s] the recorded choice stream does not fit the model's traversal" opdesc))
           | None, Some r, None ->
             add (Diff ("atomic", Printf.sprintf "[%s] model predicts a panic, impl {%s}" opdesc (String.concat " " r)))
           | None, None, _ -> add (Diff ("atomic", Printf.sprintf "[%s] no result line" opdesc)));
          (* contract of the recorded shuffles (checked on ints: Model.is_perm is quadratic on unary nat) *)
          List.iter (function
              | Model.Perm p ->
                let l = List.sort compare (List.map Conv.int_of_nat p) in
                if l <> List.init (List.length l) (fun i -> i) then
                  add (Diff ("atomic-choices", "a recorded shuffle is not a permutation"))
              | Model.Split _ -> ()) chs;
          (* oracle *)
          (match tbl with
           | Some t when valid ->
             let ta = List.filter (fun m -> List.for_all (holds m) a) t in
             if ta <> [] then begin
               bump "atomic_oracle_judged";
               (match pan, res with
                | Some msg, _ -> add (Viol ("atomic:panic", Printf.sprintf "[%s] panicked: %s" opdesc msg))
                | None, Some r when not is_error ->
                  let ir = parse_sets r in
                  if List.length (partition holds ta cand_list) > 0 then bump "atomic_nonempty_expected";
                  List.iter add (judge ~value:holds ~ta ~cands:cand_list ~cross ~opdesc ~big:false ir)
                | _ -> ())
             end else bump "atomic_unsat_requests"
           | _ -> ());
          (match find "clean" with
           | Some ["0"] -> add (Diff ("clean", Printf.sprintf "after [%s] the implementation's markers/md are not reset" opdesc))
           | _ -> ());
          if not (List.for_all (fun m -> not m) (Model.marks !st) && Model.mdl !st = []) then
            add (Diff ("clean-model", Printf.sprintf "after [%s] the model state is not Clean" opdesc))
      ) (ops_with_lines b.lines);
    if tbl <> None then bump "C08_blocks_with_truth_table";
    if !out = [] then [Ok] else List.rev !out

(* the 40 000-feature case: no circuit dump, no replay.  Oracle: the source clauses; every feature
   they do not mention is free.  The truth table is taken over the mentioned features, the
   assumption features and the candidates only (free features outside that set do not matter). *)
let check_big (b : block) : verdict list =
  match impl b "panic" with
  | Some msg -> [Viol ("load:panic", "loading panicked: " ^ String.concat " " msg)]
  | None ->
    let clauses = List.map ints (find_all b "src_clause") in
    let out = ref [] in
    let add v = out := v :: !out in
    List.iter (fun (op, lines) ->
        let opdesc = String.concat " " op in
        match parse_op (List.tl op) with
        | Some (cross, Some cands, a) ->
          let vars = List.sort_uniq compare (List.map abs (List.concat clauses @ a @ cands)) in
          let k = List.length vars in
          let idx v = let rec go i = function x :: r -> if x = v then i else go (i + 1) r | [] -> failwith "var" in go 0 vars in
          let value m l = let bit = (m lsr (idx (abs l))) land 1 = 1 in if l > 0 then bit else not bit in
          let rows = List.filter (fun m -> List.for_all (fun cl -> List.exists (value m) cl) clauses
                                           && List.for_all (value m) a)
              (List.init (1 lsl k) (fun m -> m)) in
          bump "atomic_big_requests";
          (match Option.map (String.concat " ") (List.assoc_opt "panic" lines), List.assoc_opt "r" lines with
           | Some msg, _ -> add (Viol ("atomic:panic", Printf.sprintf "[%s] panicked: %s" opdesc msg))
           | None, Some r ->
             let ir = parse_sets r in
             let big = List.exists (fun f -> f >= 32768) cands in
             (* what the model says about such ids: every reported id went through wrap16 *)
             let wrapped = List.map (fun f -> Conv.int_of_z (Mdl.Atomic.wrap16 (Conv.z_of_int f))) cands in
             if List.exists (List.exists (fun x -> not (List.mem x wrapped))) ir then
               add (Diff ("atomic-big", Printf.sprintf "[%s] impl {%s} contains an id that is not wrap16 of a candidate" opdesc (show_sets ir)));
             if rows <> [] then
               List.iter add (judge ~value ~ta:rows ~cands ~cross ~opdesc ~big ir)
           | None, None -> add (Diff ("atomic-big", "no result line")))
        | _ -> add (Diff ("atomic-big", "bad op line " ^ opdesc))
      ) (ops_with_lines b.lines);
    if !out = [] then [Ok] else List.rev !out

let kinds = [ "C08", check; "C08BIG", check_big ]
