
type __ = Obj.t

val negb : bool -> bool

type nat =
| O
| S of nat

val option_map : ('a1 -> 'a2) -> 'a1 option -> 'a2 option

val fst : ('a1 * 'a2) -> 'a1

val snd : ('a1 * 'a2) -> 'a2

val length : 'a1 list -> nat

val app : 'a1 list -> 'a1 list -> 'a1 list

type comparison =
| Eq
| Lt
| Gt

val compOpp : comparison -> comparison

val id : __ -> __

type uint =
| Nil
| D0 of uint
| D1 of uint
| D2 of uint
| D3 of uint
| D4 of uint
| D5 of uint
| D6 of uint
| D7 of uint
| D8 of uint
| D9 of uint

type signed_int =
| Pos of uint
| Neg of uint

val revapp : uint -> uint -> uint

val rev : uint -> uint

module Little :
 sig
  val double : uint -> uint

  val succ_double : uint -> uint
 end

val add : nat -> nat -> nat

val mul : nat -> nat -> nat

val sub : nat -> nat -> nat

val eqb : bool -> bool -> bool

module Nat :
 sig
  val eqb : nat -> nat -> bool

  val leb : nat -> nat -> bool

  val ltb : nat -> nat -> bool

  val divmod : nat -> nat -> nat -> nat -> nat * nat

  val div : nat -> nat -> nat
 end

val in_dec : ('a1 -> 'a1 -> bool) -> 'a1 -> 'a1 list -> bool

val nth : nat -> 'a1 list -> 'a1 -> 'a1

val last : 'a1 list -> 'a1 -> 'a1

val rev0 : 'a1 list -> 'a1 list

val concat : 'a1 list list -> 'a1 list

val map : ('a1 -> 'a2) -> 'a1 list -> 'a2 list

val flat_map : ('a1 -> 'a2 list) -> 'a1 list -> 'a2 list

val fold_left : ('a1 -> 'a2 -> 'a1) -> 'a2 list -> 'a1 -> 'a1

val fold_right : ('a2 -> 'a1 -> 'a1) -> 'a1 -> 'a2 list -> 'a1

val existsb : ('a1 -> bool) -> 'a1 list -> bool

val forallb : ('a1 -> bool) -> 'a1 list -> bool

val filter : ('a1 -> bool) -> 'a1 list -> 'a1 list

val firstn : nat -> 'a1 list -> 'a1 list

val skipn : nat -> 'a1 list -> 'a1 list

val nodup : ('a1 -> 'a1 -> bool) -> 'a1 list -> 'a1 list

val seq : nat -> nat -> nat list

type positive =
| XI of positive
| XO of positive
| XH

type n =
| N0
| Npos of positive

type z =
| Z0
| Zpos of positive
| Zneg of positive

module Pos :
 sig
  val succ : positive -> positive

  val add : positive -> positive -> positive

  val add_carry : positive -> positive -> positive

  val pred_double : positive -> positive

  val mul : positive -> positive -> positive

  val compare_cont : comparison -> positive -> positive -> comparison

  val compare : positive -> positive -> comparison

  val eqb : positive -> positive -> bool

  val iter_op : ('a1 -> 'a1 -> 'a1) -> positive -> 'a1 -> 'a1

  val to_nat : positive -> nat

  val of_succ_nat : nat -> positive

  val of_uint_acc : uint -> positive -> positive

  val of_uint : uint -> n

  val to_little_uint : positive -> uint

  val to_uint : positive -> uint

  val eq_dec : positive -> positive -> bool
 end

module Z :
 sig
  val double : z -> z

  val succ_double : z -> z

  val pred_double : z -> z

  val pos_sub : positive -> positive -> z

  val add : z -> z -> z

  val opp : z -> z

  val sub : z -> z -> z

  val mul : z -> z -> z

  val compare : z -> z -> comparison

  val leb : z -> z -> bool

  val ltb : z -> z -> bool

  val eqb : z -> z -> bool

  val min : z -> z -> z

  val abs : z -> z

  val to_nat : z -> nat

  val of_nat : nat -> z

  val of_N : n -> z

  val of_uint : uint -> z

  val of_int : signed_int -> z

  val to_int : z -> signed_int

  val pos_div_eucl : positive -> z -> z * z

  val div_eucl : z -> z -> z * z

  val div : z -> z -> z

  val modulo : z -> z -> z

  val eq_dec : z -> z -> bool
 end

type ascii =
| Ascii of bool * bool * bool * bool * bool * bool * bool * bool

val eqb0 : ascii -> ascii -> bool

type string =
| EmptyString
| String of ascii * string

val uint_of_char : ascii -> uint option -> uint option

module NilEmpty :
 sig
  val string_of_uint : uint -> string

  val uint_of_string : string -> uint option

  val string_of_int : signed_int -> string

  val int_of_string : string -> signed_int option
 end

type ntype =
| Lit of z
| And of nat list
| Or of nat list
| TrueN
| FalseN

val pass : ('a1 list -> ntype -> 'a1) -> ntype list -> 'a1 list

val zprod : z list -> z

val zsum : z list -> z

val count_node : z list -> ntype -> z

val counts : ntype list -> z list

val root_count : ntype list -> z

val lit_true : (z -> bool) -> z -> bool

val eval_node : (z -> bool) -> bool list -> ntype -> bool

val evals : (z -> bool) -> ntype list -> bool list

val eval_root : (z -> bool) -> ntype list -> bool

val prod0 : z list list list -> z list list

val enum_node : z list list list -> ntype -> z list list

val enums : ntype list -> z list list list

val enum_root : ntype list -> z list list

val vars_node : z list list -> ntype -> z list

val varss : ntype list -> z list list

val memZ : z -> z list -> bool

val zseq : z -> nat -> z list

val all_cfgs_over : z list -> z list list

val all_cfgs : nat -> z list list

val asg_of : z list -> z -> bool

val canon : nat -> (z -> bool) -> z list

val canon_cfg : nat -> z list -> z list

val models : ntype list -> nat -> z list list

val mC : ntype list -> nat -> z

val contains_all : z list -> z list -> bool

val modelsA : ntype list -> nat -> z list -> z list list

val mCA : ntype list -> nat -> z list -> z

val children : ntype -> nat list

val idx_ok_from : nat -> ntype list -> bool

val idx_ok : ntype list -> bool

val disjointb : z list -> z list -> bool

val inclb : z list -> z list -> bool

val pairwise : ('a1 -> 'a1 -> bool) -> 'a1 list -> bool

val decomposable_node : z list list -> ntype -> bool

val smooth_node : z list list -> ntype -> bool

val decomposable : ntype list -> bool

val smooth : ntype list -> bool

val complete : ntype list -> nat -> bool

val interZ : z list -> z list -> z list

val forced_node : z list list -> ntype -> z list

val forceds : ntype list -> z list list

val conflictb : z list -> z list -> bool

val det_cert_node : z list -> z list list -> ntype -> bool

val det_cert : ntype list -> bool

val lits_of : ntype list -> z list

val nodupb : z list -> bool

val unique_leaves : ntype list -> bool

val no_dead : ntype list -> bool

val no_true_false : ntype list -> bool

val lits_nonzero : ntype list -> bool

val has_parent : ntype list -> nat -> bool

val all_reachable : ntype list -> bool

val check_wf : ntype list -> nat -> bool

val upd : nat -> 'a1 -> 'a1 list -> 'a1 list

val lit_idx_from : nat -> ntype list -> z -> nat option -> nat option

val lit_idx : ntype list -> z -> nat option

val has_lit : ntype list -> z -> bool

val parents_from : nat -> ntype list -> nat -> nat list

val parents : ntype list -> nat list list

val true_nodes_from : nat -> ntype list -> nat list

val true_nodes : ntype list -> nat list

val calculate_core : ntype list -> nat -> z list

type ddnnf = { circ : ntype list; nv : nat; cnts : z list;
               pars : nat list list; core : z list }

val build : ntype list -> nat -> ddnnf

type scratch = { temps : z list; marks : bool list; pds : z list;
                 mdl : nat list }

val temps : scratch -> z list

val marks : scratch -> bool list

val pds : scratch -> z list

val mdl : scratch -> nat list

val fresh_scratch : ntype list -> scratch

val rootn : ddnnf -> nat

val rc : ddnnf -> z

val rt : ddnnf -> scratch -> z

val has_no_effect : ddnnf -> z -> bool

val makes_unsat : ddnnf -> z -> bool

val reduce_query : ddnnf -> z list -> z list

val query_is_not_sat : ddnnf -> z list -> bool

val filter_map : ('a1 -> 'a2 option) -> 'a1 list -> 'a2 list

val opposing_indexes : ddnnf -> z list -> nat list

val mark_nodes :
  ddnnf -> nat -> nat -> (bool list * nat list) -> bool list * nat list

val mark_nodes_start :
  ddnnf -> nat -> (bool list * nat list) -> bool list * nat list

val insert_nat : nat -> nat list -> nat list

val sort_nat : nat list -> nat list

val mark_assumptions : ddnnf -> nat list -> scratch -> scratch

val mixed : ddnnf -> scratch -> nat -> z

val calc_count_marked_node : ddnnf -> nat -> scratch -> scratch

val calc_count : ddnnf -> nat -> scratch -> scratch

val operate_on_marker : ddnnf -> nat list -> scratch -> scratch * z

val card_of_feature_with_marker : ddnnf -> z -> scratch -> scratch * z

val operate_on_partial_config_marker :
  ddnnf -> z list -> scratch -> scratch * z

val operate_on_partial_config_default :
  ddnnf -> z list -> scratch -> scratch * z

val execute_query : ddnnf -> z list -> scratch -> scratch * z

val get_marked_nodes_clone : ddnnf -> z list -> scratch -> scratch * nat list

val core_dead_with_assumptions :
  ddnnf -> z list -> scratch -> scratch * z list

val propagate_mark : ddnnf -> nat -> nat -> bool list -> bool list

val sat_loop : ddnnf -> z list -> bool list -> nat -> bool list * bool

val sat_propagate :
  ddnnf -> z list -> bool list -> nat option -> bool list * bool

val sat : ddnnf -> z list -> bool

val annotate_single : ddnnf -> nat -> z list -> z list

val annotate_partial_derivatives : ddnnf -> scratch -> scratch

val card_of_feature_pd : ddnnf -> scratch -> z -> z

val card_of_each_feature : ddnnf -> scratch -> scratch * (z * z) list

val preprocess : ddnnf -> z list -> scratch -> scratch option

val slice : z -> z -> 'a1 list -> 'a1 list

val is_true_node : ddnnf -> nat -> bool

val enumerate_node : ddnnf -> z list -> nat -> z -> z -> nat -> z list list

val insert_abs : z -> z list -> z list

val sort_abs : z list -> z list

val cfg_eqb : z list -> z list -> bool

val cur_get : (z list * z) list -> z list -> z

val cur_set : (z list * z) list -> z list -> z -> (z list * z) list

val enumerate :
  ddnnf -> z list -> z -> (z list * z) list -> scratch -> (scratch * (z
  list * z) list) * z list list option

type choice =
| Split of z list
| Perm of nat list

val apply_perm : nat list -> 'a1 list -> 'a1 -> 'a1 list

val repeat_n : 'a1 -> nat -> 'a1 list

val stitch : z list list -> z list list -> z list list

val take_choice : choice list -> choice option * choice list

val sample_node :
  ddnnf -> z list -> nat -> z -> nat -> choice list -> (z list list * choice
  list) * bool

val uniform_random_sampling :
  ddnnf -> z list -> z -> choice list -> scratch -> (scratch * z list list
  option) * bool

val is_perm : nat list -> bool

type optype =
| OpAnd
| OpOr

val optype_eqb : optype -> optype -> bool

type bicond = { b_index : z; b_op : optype; b_lits : z list }

type panic =
| PanicTrue
| PanicFalse
| PanicEmptyOp
| PanicIndex

type 'a res =
| Done of 'a
| Fail of panic

val list_eqb : z list -> z list -> bool

type cache_t = ((optype * z list) * z) list

val cache_get : cache_t -> optype -> z list -> z option

type tstate = { ts_idx : z; ts_bics : bicond list; ts_lits : z list;
                ts_cache : cache_t }

val init_state : nat -> tstate

val transform_operation : optype -> z list -> tstate -> (z * tstate) res

val nodes_to_literals : nat -> nat list -> z list -> z list res

val set_literal : z -> tstate -> tstate

val step_op : nat -> optype -> nat list -> tstate -> tstate res

val step : nat -> tstate -> ntype -> tstate res

val run : nat -> ntype list -> tstate -> tstate res

val clauses_of : bicond -> z list list

type cnf = { num_variables : nat; clauses : z list list }

val cnf_of_clauses : z list list -> cnf

val header_of : cnf -> nat * nat

type outcome =
| Ok of cnf
| Panic of panic

val to_cnf : ntype list -> nat -> outcome

val clause_sat : (z -> bool) -> z list -> bool

val cnf_sat : (z -> bool) -> cnf -> bool

val cnf_models : cnf -> z list list

val z_to_string : z -> string

val z_of_string : string -> z option
