(* C13: the stream line handler.
   MODEL: the extracted handle_full (V1, profile of the run) threaded through one state per block
   must give the implementation's answer: exact text for results and for errors (lines with
   non-printable characters: error CODE only); a model Panic <-> an implementation panic.
   atomic / t-wise answers and the io result of save-ddnnf are abstract in the model: the
   implementation's answer is replayed into the abstract operation, so for those lines the
   comparison only says "accepted with these arguments" vs "rejected".
   ORACLE (independent of the parsing model; decides VIOL):
     (i)   stream:panic                         no line may panic
     (ii)  stream:not-a-line / stream:wrong-result
           every answer is one line; for the lines the mini-parser below understands
           (count | sat | core, groups `a nums` / `v nums` in any order and spelling, nums = k | a..b | a..,
           everything in range) the answer must be the truth-table answer rendered per the protocol
     (iii) stream:rejected-line-changed-state   probe battery (count v -n.., sat v 1.., core a 1, core,
           enum l 1 = cursor position) before/after a line: identical answers (and the cursor one step
           further, nothing else) unless the line is an accepted enum / clause-update / undo-update
     (iv)  stream:param-order                   lines with the same request up to group order /
           spelling / blanks get the same answer
     (v)   stream:history-dependent             a fresh instance answers count/sat/core lines alike
     (vi)  stream:out-of-range-accepted         a count/sat/core line that is well-formed except for a
           number outside -n..n must be answered by an error
     (vii) enumerate:cursor-shared-across-models   (detector, no finding line since the repair F21 of
           finding K2) the paging state of this model moved because ANOTHER model of the process was
           paged (block with `other_model`), or survived a clause-update / undo-update that replaced
           the model (kind C13U, check_update below) *)
open Blocks

let unhex (h : string) : string =
  if h = "-" then "" else begin
    let n = String.length h / 2 in
    String.init n (fun i -> Char.chr (int_of_string ("0x" ^ String.sub h (2 * i) 2)))
  end

type entry = {
  flag : string;
  line : string;
  ans : string option;      (* None = panic *)
  pmsg : string;
  fresh : string option;
  chs : string list;
}

let entries (b : block) : entry list =
  let rec go acc cur = function
    | [] -> List.rev (match cur with Some c -> c :: acc | None -> acc)
    | ("L", [f; h]) :: r ->
      let acc = match cur with Some c -> c :: acc | None -> acc in
      go acc (Some { flag = f; line = unhex h; ans = None; pmsg = "(no answer recorded)"; fresh = None; chs = [] }) r
    | ("R", [h]) :: r -> go acc (Option.map (fun c -> { c with ans = Some (unhex h) }) cur) r
    | ("P", m) :: r -> go acc (Option.map (fun c -> { c with ans = None; pmsg = String.concat " " m }) cur) r
    | ("F", [h]) :: r -> go acc (Option.map (fun c -> { c with fresh = Some (unhex h) }) cur) r
    | ("C", t) :: r -> go acc (Option.map (fun c -> { c with chs = t }) cur) r
    | _ :: r -> go acc cur r
  in
  go [] None b.lines

let is_err_text (s : string) : bool =
  String.length s >= 3 && s.[0] = 'E' && s.[1] >= '1' && s.[1] <= '6' && s.[2] = ' '
let err_code (s : string) : string = if is_err_text s then String.sub s 0 2 else "ok"
let printable (s : string) : bool =
  let ok = ref true in
  String.iter (fun c -> if (Char.code c < 32 && not (List.mem (Char.code c) [9; 10; 11; 12; 13])) || Char.code c >= 127 then ok := false) s;
  !ok

let code_name = function
  | Mdl.StreamMsg.E1 -> "E1" | Mdl.StreamMsg.E2 -> "E2" | Mdl.StreamMsg.E3 -> "E3" | Mdl.StreamMsg.E4 -> "E4" | Mdl.StreamMsg.E5 -> "E5" | Mdl.StreamMsg.E6 -> "E6"

(* ---------------- the oracle's own mini-parser (deliberately simple, OCaml strings) *)
let split_blank (s : string) : string list =
  let toks = ref [] and cur = Buffer.create 8 in
  let flush () = if Buffer.length cur > 0 then (toks := Buffer.contents cur :: !toks; Buffer.clear cur) in
  String.iter (fun c -> if c = ' ' || (Char.code c >= 9 && Char.code c <= 13) then flush () else Buffer.add_char cur c) s;
  flush (); List.rev !toks

let int_tok (s : string) : int option =
  let n = String.length s in
  let st = if n > 0 && s.[0] = '-' then 1 else 0 in
  if n - st < 1 || n - st > 10 then None
  else begin
    let ok = ref true in
    for i = st to n - 1 do if s.[i] < '0' || s.[i] > '9' then ok := false done;
    if not !ok then None
    else let v = int_of_string s in if v >= -2147483648 && v <= 2147483647 then Some v else None
  end

(* k | a..b | a..  ->  expanded list (zeros kept here) *)
let num_tok (n : int) (s : string) : int list option =
  let find_dd s = let r = ref (-1) in
    (try for i = 0 to String.length s - 2 do if s.[i] = '.' && s.[i + 1] = '.' then (r := i; raise Exit) done with Exit -> ()); !r in
  match int_tok s with
  | Some v -> Some [v]
  | None ->
    let i = find_dd s in
    if i < 1 then None
    else begin
      let a = String.sub s 0 i and b = String.sub s (i + 2) (String.length s - i - 2) in
      match int_tok a, (if b = "" then Some n else int_tok b) with
      | Some x, Some y -> if y - x > 1000 then None else Some (if y < x then [] else List.init (y - x + 1) (fun k -> x + k))
      | _ -> None
    end

type mini = { cmd : string; ma : int list; mv : int list option }
(* set by mini_parse when the line is well-formed except that a number lies outside -n..n *)
let out_of_range = ref false

let mini_parse (n : int) (line : string) : mini option =
  out_of_range := false;
  (* the documented duplicate rule: a word that is not a plain number may occur only once
     (this also rejects a repeated range token such as `count a 1..2 1..2`) *)
  let toks = split_blank line in
  let texts = List.filter (fun t -> int_tok t = None) toks in
  if List.length (List.sort_uniq compare texts) <> List.length texts then None else
  match toks with
  | cmd :: rest when List.mem cmd ["count"; "sat"; "core"] ->
    let is_a t = t = "a" || t = "assumptions" and is_v t = t = "v" || t = "variables" in
    (* groups: keyword followed by >= 1 number tokens *)
    let rec groups acc = function
      | [] -> Some (List.rev acc)
      | k :: r when is_a k || is_v k ->
        let rec nums got = function
          | t :: r' when not (is_a t || is_v t) ->
            (match num_tok n t with Some l -> nums (got @ [l]) r' | None -> None)
          | r' -> Some (got, r') in
        (match nums [] r with
         | Some (got, r') when got <> [] ->
           let l = List.filter (fun x -> x <> 0) (List.concat got) in
           if l = [] then None
           else begin
             if List.exists (fun x -> abs x > n) l then out_of_range := true;
             groups ((is_a k, l) :: acc) r'
           end
         | _ -> None)
      | _ -> None in
    (match groups [] rest with
     | Some gs ->
       let a = List.filter fst gs and v = List.filter (fun g -> not (fst g)) gs in
       if List.length a > 1 || List.length v > 1 then None
       else Some { cmd; ma = (match a with [(_, l)] -> l | _ -> []);
                   mv = (match v with [(_, l)] -> Some l | _ -> None) }
     | None -> None)
  | _ -> None

(* `enum [a nums] [l k]` in any group order / spelling: (assumptions, limit) *)
let enum_parse (n : int) (line : string) : (int list * int option) option =
  let toks = split_blank line in
  let texts = List.filter (fun t -> int_tok t = None) toks in
  if List.length (List.sort_uniq compare texts) <> List.length texts then None else
  match toks with
  | "enum" :: rest ->
    let is_a t = t = "a" || t = "assumptions" and is_l t = t = "l" || t = "limit" in
    let rec go a l = function
      | [] -> Some (a, l)
      | k :: r when is_a k && a = None ->
        let rec nums got = function
          | t :: r' when not (is_a t || is_l t) ->
            (match num_tok n t with Some x -> nums (got @ x) r' | None -> None)
          | r' -> Some (got, r') in
        (match nums [] r with
         | Some (got, r') ->
           let got = List.filter (fun x -> x <> 0) got in
           if got = [] || List.exists (fun x -> abs x > n) got then None else go (Some got) l r'
         | None -> None)
      | k :: t :: r when is_l k && l = None ->
        (match int_tok t with Some v when v >= 1 && v <= 100000 -> go a (Some v) r | _ -> None)
      | _ -> None in
    (match go None None rest with
     | Some (a, l) -> Some ((match a with Some x -> x | None -> []), l)
     | None -> None)
  | _ -> None

(* the answer of an accepted enum line: ';'-joined configurations, literals joined by blanks *)
let parse_cfgs (a : string) : int list list option =
  try Some (List.map (fun c -> List.map (fun t -> match int_tok t with Some v -> v | None -> raise Exit) (split_blank c))
              (String.split_on_char ';' a))
  with Exit -> None

let expected (tbl : int list) (n : int) (m : mini) : string =
  let mca = Chk_ops.mca tbl in
  let features = List.init n (fun i -> i + 1) in
  match m.cmd, m.mv with
  | "count", None -> string_of_int (mca m.ma)
  | "count", Some v -> String.concat ";" (List.map (fun x -> string_of_int (mca (m.ma @ [x]))) v)
  | "sat", None -> string_of_bool (mca m.ma > 0)
  | "sat", Some v -> String.concat ";" (List.map (fun x -> string_of_bool (mca (m.ma @ [x]) > 0)) v)
  | "core", None ->
    let ta = List.filter (fun md -> List.for_all (Chk_ops.holds md) m.ma) tbl in
    let fixed l = List.for_all (fun md -> Chk_ops.holds md l) ta in
    let lits = List.concat_map (fun v -> [v; -v]) features in
    String.concat " " (List.map string_of_int (List.sort compare (List.filter fixed lits)))
  | "core", Some v ->
    String.concat ";" (List.filter_map (fun x -> if mca (m.ma @ [x]) = mca m.ma then Some (string_of_int x) else None) v)
  | _ -> "?"

let canonical (m : mini) : string =
  let l x = String.concat "," (List.map string_of_int x) in
  m.cmd ^ "|" ^ l m.ma ^ "|" ^ (match m.mv with None -> "-" | Some v -> l v)

(* ---------------- replaying the abstract operations from the implementation's answer *)
let save_answer (ans : string) : Model.string option =
  let pre = "E6 error: " and mid = " while trying to write ddnnf to " in
  let n = String.length ans and lp = String.length pre and lm = String.length mid in
  if n >= lp && String.sub ans 0 lp = pre then begin
    let r = ref None in
    (try for i = lp to n - lm do
         if String.sub ans i lm = mid then (r := Some (Conv.coq_string (String.sub ans lp (i - lp))); raise Exit) done
     with Exit -> ());
    !r
  end else None

let first_tok (line : string) : string = match split_blank line with t :: _ -> t | [] -> ""

let check (b : block) : verdict list =
  match find b "skipped" with
  | Some [k] -> bump_by "c13_lines_not_run_resource_guard" (int_of_string k); [Ok]
  | _ ->
  if find b "k6" <> None then begin
    (* finding K6, bounded variant: wall-clock of `count a 1..K` (rejected: boundary 5) for growing K *)
    let rows = List.filter_map (function [k; ns; a] -> Some (int_of_string k, float_of_string ns, unhex a) | _ -> None) (find_all b "K6") in
    match rows with
    | (k0, t0, _) :: _ when List.length rows >= 2 ->
      let (k1, t1, _) = List.nth rows (List.length rows - 1) in
      let all_rejected = List.for_all (fun (_, _, a) -> err_code a = "E3") rows in
      bump "c13_k6_probes";
      if all_rejected && t1 > 20.0 *. t0 && t1 > 1.0e6 then
        [Viol ("get_numbers:range-expansion",
               Printf.sprintf "`count a 1..%d` on 5 features is rejected (boundary -5..5) after %.0f us, `count a 1..%d` after %.0f us: the range is materialised before the boundary check, cost grows with the range, not with n"
                 k1 (t1 /. 1000.0) k0 (t0 /. 1000.0))]
      else [Ok]
    | _ -> [Ok]
  end else
  match impl b "panic" with
  | Some msg -> [Viol ("load:panic", "loading panicked: " ^ String.concat " " msg)]
  | None ->
    let n = Chk_c01.int_n b in
    let nn = Conv.nat_of_int n in
    let c = b.circuit in
    let dbg = (find b "profile" = Some ["debug"]) in
    let tbl = Chk_ops.table b n in
    let out = ref [] in
    let nviol = ref 0 in
    (* at most 40 violations and 40 differences are listed per block, counted separately so that a
       run of model differences cannot crowd out the oracle's verdicts *)
    let ndiff = ref 0 in
    let add v = match v with
      | Viol _ -> incr nviol; if !nviol <= 40 then out := v :: !out
      | _ -> incr ndiff; if !ndiff <= 40 then out := v :: !out in
    (* `other_model`: ANOTHER model of the same process is paged before and between the lines of this
       block.  Since the repair F21 (finding K2) that must not matter: the model starts from its own
       empty cursor like in every block, the answers are compared exactly and judged by the
       truth-table rules like in every block; only the signature of what goes wrong differs
       (a detector without a finding line: any occurrence is a violation). *)
    let other = find b "other_model" <> None in
    let panic_sig = if other then "enumerate:cursor-shared-across-models" else "stream:panic" in
    let wrong_sig = if other then "enumerate:cursor-shared-across-models" else "stream:wrong-result" in
    let st = ref { Mdl.StreamMsg.dd = Model.build c nn; sc = Model.fresh_scratch c; cur = []; cache = None } in
    let es = Array.of_list (entries b) in
    let seen : (string, string * string) Hashtbl.t = Hashtbl.create 64 in
    let enum_cycles : (int list, (int, unit) Hashtbl.t) Hashtbl.t = Hashtbl.create 4 in
    (* cursor oracle: the answers of `enum l 1` probes must walk one fixed cycle *)
    let cycle : (string, string) Hashtbl.t = Hashtbl.create 16 in   (* answer -> next answer *)
    let last_probe = ref None and may_move = ref false in
    let before : (string * string) list option ref = ref None in
    let cur_pure : (string * string) list ref = ref [] in
    let lines_since = ref 0 in
    let last_line = ref None in
    Array.iteri (fun _idx e ->
        let show = String.escaped e.line in
        if Sys.getenv_opt "C13_TRACE" <> None then prerr_endline show;
        (* ---- model *)
        let impl_text = match e.ans with Some a -> a | None -> "" in
        let ci = Conv.coq_string impl_text in
        let x = Mdl.StreamMsg.ext_nnf ci ci (save_answer impl_text) in
        let chs = if e.chs = [] then [] else Chk_enum.parse_choices e.chs in
        let ((st', mo), fits) = Mdl.StreamMsg.handle_full x Mdl.StreamMsg.V1 dbg !st (Conv.coq_string e.line) chs in
        st := st';
        (match mo, e.ans with
         | Mdl.StreamMsg.SPanic site, None -> ()
         | Mdl.StreamMsg.SPanic site, Some a ->
           add (Diff ("panic-model-only", Printf.sprintf "[%s] model panics at %s, implementation answered %s" show (Conv.ocaml_string site) (String.escaped a)))
         | _, None -> ()   (* reported by the oracle below *)
         | Mdl.StreamMsg.SOk s, Some a ->
           let s = Conv.ocaml_string s in
           if s <> a then add (Diff ("result", Printf.sprintf "[%s] model {%s} impl {%s}" show (String.escaped s) (String.escaped a)))
           else if is_err_text a then add (Diff ("result-vs-error", Printf.sprintf "[%s] the model accepts the line, the implementation answers %s" show (String.escaped a)))
         | Mdl.StreamMsg.SErr (cd, t), Some a ->
           let t = Conv.ocaml_string t in
           if t <> a then begin
             if err_code a = code_name cd && not (printable e.line) then bump "c13_errors_compared_by_code_only"
             else add (Diff ("error", Printf.sprintf "[%s] model {%s} impl {%s}" show (String.escaped t) (String.escaped a)))
           end);
        if not fits then add (Diff ("sample-choices", Printf.sprintf "[%s] the recorded choice stream does not fit the model's traversal" show));
        (* ---- oracle *)
        (match e.ans with
         | None -> add (Viol (panic_sig, Printf.sprintf "line [%s] panicked: %s" show e.pmsg))
         | Some a ->
           (* the probe battery's own lines are judged like every other line (they contain the open
              range `count v -n..`); only the statistics skip them *)
           begin
             if e.flag <> "b" then (bump "c13_lines"; bump ("c13_answer_" ^ err_code a));
             if String.contains a '\n' && first_tok e.line <> "t-wise" then
               add (Viol ("stream:not-a-line", Printf.sprintf "line [%s]: the answer spans several lines" show));
             (match tbl with
              | Some t ->
                (match mini_parse n e.line with
                 | Some _ when !out_of_range ->
                   bump "c13_lines_out_of_range";
                   if not (is_err_text a) then
                     add (Viol ("stream:out-of-range-accepted", Printf.sprintf "line [%s] names a feature outside 1..%d but was answered {%s}" show n (String.escaped a)))
                 | Some m ->
                   bump "c13_lines_decided_by_truth_table";
                   let exp = expected t n m in
                   if a <> exp then
                     add (Viol ("stream:wrong-result", Printf.sprintf "line [%s] answered {%s}, the truth table gives {%s}" show (String.escaped a) exp));
                   let key = canonical m in
                   (match Hashtbl.find_opt seen key with
                    | Some (a0, l0) when a0 <> a ->
                      add (Viol ("stream:param-order", Printf.sprintf "lines [%s] and [%s] are the same request but answered {%s} / {%s}" (String.escaped l0) show (String.escaped a0) (String.escaped a)))
                    | Some _ -> bump "c13_same_request_pairs"
                    | None -> Hashtbl.replace seen key (a, e.line))
                 | None ->
                   (match enum_parse n e.line with
                    | Some (ma, lim) when Chk_ops.mca t [] > 0 ->
                      (* the library call is enumerate(A, k), k = the limit, default min(#models, 1000) *)
                      bump "c13_enum_lines_decided_by_truth_table";
                      let k = match lim with Some k -> k | None -> min (Chk_ops.mca t []) 1000 in
                      let ca = Chk_ops.mca t ma in
                      if ca = 0 then begin
                        if not (is_err_text a) then
                          add (Viol (wrong_sig, Printf.sprintf "line [%s] answered {%s}: no configuration contains the assumptions, enumerate(A, %d) is None and the documented answer is the E5 error" show (String.escaped a) k))
                      end else begin
                        match (if is_err_text a then None else parse_cfgs a) with
                        | None -> add (Viol (wrong_sig, Printf.sprintf "line [%s] answered {%s}: %d configurations contain the assumptions" show (String.escaped a) ca))
                        | Some cfgs ->
                          let mask c = List.fold_left (fun acc l -> if l > 0 then acc lor (1 lsl (l - 1)) else acc) 0 c in
                          let complete c = List.sort compare (List.map abs c) = List.init n (fun i -> i + 1) in
                          let bad = List.filter (fun c -> not (complete c && List.mem (mask c) t && List.for_all (fun l -> List.mem l c) ma)) cfgs in
                          let cnt = List.length cfgs in
                          if bad <> [] then
                            add (Viol (wrong_sig, Printf.sprintf "line [%s] answered {%s}: not every entry is a complete valid configuration containing the assumptions" show (String.escaped a)))
                          else if List.length (List.sort_uniq compare cfgs) <> cnt then
                            add (Viol (wrong_sig, Printf.sprintf "line [%s] answered {%s}: a configuration is listed twice in one page" show (String.escaped a)))
                          else if cnt < 1 || cnt > min k ca then
                            add (Viol (wrong_sig, Printf.sprintf "line [%s] answered %d configurations; enumerate(A, %d) with %d matching configurations returns between 1 and %d" show cnt k ca (min k ca)))
                          else if other then begin
                            (* this block's lines are enum lines only: the full cycle rule of C06 *)
                            let key = List.sort_uniq compare ma in
                            let seen_cfgs = match Hashtbl.find_opt enum_cycles key with
                              | Some h -> h | None -> let h = Hashtbl.create 8 in Hashtbl.replace enum_cycles key h; h in
                            let remaining = ca - Hashtbl.length seen_cfgs in
                            if cnt <> min k remaining then
                              add (Viol (wrong_sig, Printf.sprintf "line [%s] answered %d configurations {%s}; %d of the %d matching configurations were not yet returned in this cycle of THIS model" show cnt (String.escaped a) remaining ca));
                            List.iter (fun c ->
                                if Hashtbl.mem seen_cfgs (mask c) then
                                  add (Viol (wrong_sig, Printf.sprintf "line [%s] answered {%s}: a configuration already returned in this cycle of THIS model" show (String.escaped a)))
                                else Hashtbl.replace seen_cfgs (mask c) ()) cfgs;
                            if Hashtbl.length seen_cfgs >= ca then Hashtbl.reset seen_cfgs
                          end
                      end
                    | _ -> ()))
              | None -> ());
             (match e.fresh with
              | Some f ->
                bump "c13_fresh_instance_comparisons";
                if f <> a then add (Viol ("stream:history-dependent", Printf.sprintf "line [%s]: long-lived instance {%s}, fresh instance {%s}" show (String.escaped a) (String.escaped f)))
              | None -> ())
           end);
        (* ---- probe battery bookkeeping (iii) *)
        if e.flag = "b" then begin
          let a = match e.ans with Some a -> a | None -> "<panic>" in
          if e.line = "enum l 1" then begin
            (* the cursor probe closes a battery *)
            (match !last_probe with
             | Some prev when not !may_move ->
               (match Hashtbl.find_opt cycle prev with
                | Some nxt when nxt <> a ->
                  add (Viol ("stream:rejected-line-changed-state",
                             Printf.sprintf "cursor probe `enum l 1` after line [%s] returned {%s}; the configuration after {%s} was {%s} before"
                               (match !last_line with Some l -> String.escaped l | None -> "") a prev nxt))
                | Some _ -> bump "c13_cursor_steps_checked"
                | None -> Hashtbl.replace cycle prev a)
             | _ -> ());
            last_probe := Some a; may_move := false;
            (match !before with
             | Some bp when !lines_since <= 1 && List.length bp = List.length !cur_pure ->
               bump "c13_battery_pairs";
               List.iter2 (fun (l1, a1) (l2, a2) ->
                   if l1 = l2 && a1 <> a2 then
                     add (Viol ("stream:rejected-line-changed-state",
                                Printf.sprintf "probe [%s] answered {%s} before and {%s} after line [%s]" l1 a1 a2
                                  (match !last_line with Some l -> String.escaped l | None -> "")))) bp !cur_pure
             | _ -> ());
            before := Some !cur_pure; cur_pure := []; lines_since := 0
          end else cur_pure := (e.line, a) :: !cur_pure
        end else begin
          incr lines_since;
          last_line := Some e.line;
          let accepted = match e.ans with Some a -> not (is_err_text a) | None -> false in
          let mutating = List.mem (first_tok e.line) ["enum"; "clause-update"; "undo-update"] in
          if accepted && mutating then may_move := true
        end
      ) es;
    (match find b "clean" with
     | Some ["0"] -> add (Diff ("clean", "the implementation's markers/md are not reset at the end of the block"))
     | _ -> ());
    let mclean = List.for_all (fun m -> not m) (Model.marks !st.Mdl.StreamMsg.sc) && Model.mdl !st.Mdl.StreamMsg.sc = [] in
    if not mclean then add (Diff ("clean-model", "the model state is not Clean at the end of the block"));
    if !nviol > 40 then bump_by "c13_violations_not_listed" (!nviol - 40);
    if !out = [] then [Ok] else List.rev !out

(* ---------------- C13U: enum across clause-update / undo-update on a CNF-loaded model -------------
   MODEL: handle_full (V1) threaded through the history with a clause-cache stand-in whose update /
   undo answer what the implementation did: accepted (answer "") -> the node vector the harness
   dumped after the line (NC), refused -> unchanged.  Everything else is the model's own: in
   particular that an accepted update / undo EMPTIES the cursor (exec, repair F21) - a model that
   kept the cursor would answer the enum lines after an update differently (DIFF).
   ORACLE (truth table T of the clause set the session is at, maintained by the harness):
     no line panics; `count` answers |T|; the pages of the enum lines walk the cycle of their
     assumption set in T (C06: min(k, not yet returned) complete distinct models containing A, E5
     iff none), and the cycle starts again after every accepted update / undo.
   Signature of an enum defect after an update: enumerate:cursor-shared-across-models (the cursor
   of the replaced model is still in use; the C13 line of finding K2, repaired by F21: a detector,
   any occurrence is a violation); before any update: stream:wrong-result. *)
let parse_nc (toks : string list) : (int * Model.ntype list) option =
  match toks with
  | n :: rest -> (try Some (int_of_string n, List.map parse_node (Chk_ops.split_on ";" rest)) with _ -> None)
  | [] -> None

let check_update (b : block) : verdict list =
  match impl b "panic" with
  | Some msg -> [Viol ("load:panic", "loading panicked: " ^ String.concat " " msg)]
  | None ->
    let n = Chk_c01.int_n b in
    let nn = Conv.nat_of_int n in
    let dbg = (find b "profile" = Some ["debug"]) in
    let out = ref [] in
    let nv2 = ref 0 and nd2 = ref 0 in
    let add v = match v with
      | Viol _ -> incr nv2; if !nv2 <= 20 then out := v :: !out
      | _ -> incr nd2; if !nd2 <= 20 then out := v :: !out in
    (* records: line, answer, table after, circuit after *)
    let recs =
      let rec go acc cur = function
        | [] -> List.rev (match cur with Some c -> c :: acc | None -> acc)
        | ("L", [_; h]) :: r ->
          let acc = match cur with Some c -> c :: acc | None -> acc in
          go acc (Some (unhex h, None, "", None, None)) r
        | ("R", [h]) :: r -> go acc (Option.map (fun (l, _, p, t, c) -> (l, Some (unhex h), p, t, c)) cur) r
        | ("P", m) :: r -> go acc (Option.map (fun (l, _, _, t, c) -> (l, None, String.concat " " m, t, c)) cur) r
        | ("T", ms) :: r when cur <> None -> go acc (Option.map (fun (l, a, p, _, c) -> (l, a, p, Some (List.map int_of_string ms), c)) cur) r
        | ("NC", toks) :: r -> go acc (Option.map (fun (l, a, p, t, _) -> (l, a, p, t, parse_nc toks)) cur) r
        | _ :: r -> go acc cur r in
      go [] None b.lines in
    let tbl0 = match List.find_opt (fun (k, _) -> k = "T") b.lines with Some (_, ms) -> List.map int_of_string ms | None -> [] in
    let tbl = ref tbl0 in
    let st = ref { Mdl.StreamMsg.dd = Model.build b.circuit nn; sc = Model.fresh_scratch b.circuit; cur = []; cache = Some () } in
    let cycles : (int list, (int, unit) Hashtbl.t) Hashtbl.t = Hashtbl.create 4 in
    let updated = ref false in
    List.iter (fun (line, ans, pmsg, t_after, nc) ->
        let show = String.escaped line in
        let accepted = (ans = Some "") in
        (* ---- model *)
        let next () = match nc with
          | Some (n', c') -> (Model.build c' (Conv.nat_of_int n'), Model.fresh_scratch c')
          | None -> (!st.Mdl.StreamMsg.dd, !st.Mdl.StreamMsg.sc) in
        let x = { Mdl.StreamMsg.x_conflicting = (fun _ _ -> Mdl.StreamMsg.AOk false);
                  x_atomic = (fun _ _ _ _ s -> Mdl.StreamMsg.AOk (s, Conv.coq_string ""));
                  x_twise = (fun _ _ _ s -> Mdl.StreamMsg.AOk (s, Conv.coq_string ""));
                  x_update = (fun d cc _ _ _ s ->
                      if accepted then (let (d', s') = next () in Mdl.StreamMsg.AOk (((d', s'), cc), true))
                      else Mdl.StreamMsg.AOk (((d, s), cc), false));
                  x_undo = (fun d cc s ->
                      if accepted then (let (d', s') = next () in Mdl.StreamMsg.AOk (((d', s'), cc), true))
                      else Mdl.StreamMsg.AOk (((d, s), cc), false));
                  x_save_ddnnf = (fun _ _ -> Mdl.StreamMsg.AOk None);
                  x_save_cnf = (fun _ _ _ -> Mdl.StreamMsg.AOk None) } in
        let ((st', mo), _) = Mdl.StreamMsg.handle_full x Mdl.StreamMsg.V1 dbg !st (Conv.coq_string line) [] in
        st := st';
        bump "c13u_lines";
        (match mo, ans with
         | Mdl.StreamMsg.SPanic _, None -> ()
         | Mdl.StreamMsg.SPanic site, Some a ->
           add (Diff ("panic-model-only", Printf.sprintf "[%s] model panics at %s, implementation answered %s" show (Conv.ocaml_string site) (String.escaped a)))
         | _, None -> ()
         | Mdl.StreamMsg.SOk s, Some a ->
           let s = Conv.ocaml_string s in
           if s <> a then add (Diff ("result", Printf.sprintf "[%s] model {%s} impl {%s}" show (String.escaped s) (String.escaped a)))
         | Mdl.StreamMsg.SErr (_, t), Some a ->
           let t = Conv.ocaml_string t in
           if t <> a then add (Diff ("error", Printf.sprintf "[%s] model {%s} impl {%s}" show (String.escaped t) (String.escaped a))));
        (* ---- oracle *)
        let first = first_tok line in
        let sg = if !updated then "enumerate:cursor-shared-across-models" else "stream:wrong-result" in
        (match ans with
         | None ->
           add (Viol ((if first = "enum" && !updated then "enumerate:cursor-shared-across-models" else "stream:panic"),
                      Printf.sprintf "line [%s] panicked: %s%s" show pmsg
                        (if !updated then " (after an accepted update of the model in this session)" else "")))
         | Some a ->
           if first = "count" && line = "count" then begin
             if a <> string_of_int (List.length !tbl) then
               add (Diff ("c13u-table", Printf.sprintf "[count] answered %s, the clause set the harness tracks has %d models (C12's business)" a (List.length !tbl)))
           end else if first = "enum" then begin
             match enum_parse n line with
             | None -> ()
             | Some (ma, lim) ->
               bump "c13u_enum_lines_decided_by_truth_table";
               let t = !tbl in
               let k = match lim with Some k -> k | None -> min (List.length t) 1000 in
               let ta = List.filter (fun m -> List.for_all (Chk_ops.holds m) ma) t in
               let ca = List.length ta in
               if ca = 0 then begin
                 if not (is_err_text a) then add (Viol (sg, Printf.sprintf "line [%s] answered {%s}: no configuration contains the assumptions" show (String.escaped a)))
               end else begin
                 match (if is_err_text a then None else if a = "" then Some [] else parse_cfgs a) with
                 | None -> add (Viol (sg, Printf.sprintf "line [%s] answered {%s}: %d configurations contain the assumptions" show (String.escaped a) ca))
                 | Some cfgs ->
                   let mask c = List.fold_left (fun acc l -> if l > 0 then acc lor (1 lsl (l - 1)) else acc) 0 c in
                   let complete c = List.sort compare (List.map abs c) = List.init n (fun i -> i + 1) in
                   let key = List.sort_uniq compare ma in
                   let seen = match Hashtbl.find_opt cycles key with
                     | Some h -> h | None -> let h = Hashtbl.create 8 in Hashtbl.replace cycles key h; h in
                   let remaining = ca - Hashtbl.length seen in
                   if List.length cfgs <> min k remaining then
                     add (Viol (sg, Printf.sprintf "line [%s] answered %d configurations {%s}; enumerate(A, %d): %d of the %d matching configurations were not yet returned in this cycle%s"
                                  show (List.length cfgs) (String.escaped a) k remaining ca
                                  (if !updated then " (the cycle starts again when an update replaces the model)" else "")));
                   List.iter (fun c ->
                       if not (complete c && List.mem (mask c) ta) then
                         add (Viol (sg, Printf.sprintf "line [%s] answered {%s}: [%s] is not a complete configuration of the CURRENT clause set containing the assumptions" show (String.escaped a) (String.concat " " (List.map string_of_int c))))
                       else if Hashtbl.mem seen (mask c) then
                         add (Viol (sg, Printf.sprintf "line [%s] answered {%s}: [%s] was already returned in this cycle" show (String.escaped a) (String.concat " " (List.map string_of_int c))))
                       else Hashtbl.replace seen (mask c) ()) cfgs;
                   if Hashtbl.length seen >= ca then Hashtbl.reset seen
               end
           end);
        (* ---- the state the session is at after the line *)
        if accepted && (first = "clause-update" || first = "undo-update") then begin
          updated := true; Hashtbl.reset cycles; bump "c13u_accepted_updates"
        end;
        (match t_after with Some t -> tbl := t | None -> ())) recs;
    (match find b "clean" with
     | Some ["0"] -> add (Diff ("clean", "the implementation's markers/md are not reset at the end of the block"))
     | _ -> ());
    if !out = [] then [Ok] else List.rev !out

let kinds = [ "C13", check; "C13U", check_update ]
