(* C02 C03 C04 C05 (and the scratch part of C16): request sequences on one instance.
   Model: the extracted Query algorithms threaded through one scratch state (same history as the
   implementation).  Oracle: the truth table of the source formula (src_models) / of the vector. *)
open Blocks

let ints toks = List.map int_of_string toks

let rec split_on sep = function
  | [] -> [[]]
  | x :: r when x = sep -> [] :: split_on sep r
  | x :: r -> (match split_on sep r with h :: t -> (x :: h) :: t | [] -> [[x]])

type opline = { op : string list; res : string list option; pan : string option; clean : bool; fresh : string list option }

let collect_ops (b : block) : opline list =
  let rec go acc cur = function
    | [] -> List.rev (match cur with Some c -> c :: acc | None -> acc)
    | ("op", t) :: r ->
      let acc = match cur with Some c -> c :: acc | None -> acc in
      go acc (Some { op = t; res = None; pan = None; clean = true; fresh = None }) r
    | ("r", t) :: r -> go acc (Option.map (fun c -> { c with res = Some t }) cur) r
    | ("fresh", t) :: r -> go acc (Option.map (fun c -> { c with fresh = Some t }) cur) r
    | ("panic", t) :: r -> go acc (Option.map (fun c -> { c with pan = Some (String.concat " " t) }) cur) r
    | ("clean", [f]) :: r -> go acc (Option.map (fun c -> { c with clean = (f = "1") }) cur) r
    | _ :: r -> go acc cur r
  in
  go [] None b.lines

(* truth table as a list of bit masks *)
let table (b : block) (n : int) : int list option =
  match find b "src_models" with
  | Some ms -> Some (List.map int_of_string ms)
  | None ->
    if n <= 12 && List.length b.circuit <= 400 then
      Some (List.map Chk_c01.mask_of_cfg (Model.models b.circuit (Conv.nat_of_int n)))
    else None

let holds (m : int) (l : int) : bool =
  let v = abs l in
  let bit = (m lsr (v - 1)) land 1 = 1 in
  if l > 0 then bit else not bit

let mca tbl (a : int list) : int = List.length (List.filter (fun m -> List.for_all (holds m) a) tbl)

let sig_of kind what = kind ^ ":" ^ what

let check_kind (prop : string) (b : block) : verdict list =
  match impl b "panic" with
  | Some msg -> [Viol ("load:panic", "loading panicked: " ^ String.concat " " msg)]
  | None ->
    let n = Chk_c01.int_n b in
    let big = List.length b.circuit > 1200 || find b "bigcircuit" <> None in
    (* corpus-size circuits: the list-based extracted model is quadratic; only the model-free
       oracles (metamorphic laws, closed forms) are judged there (STAT big_circuits_laws_only) *)
    let nn = Conv.nat_of_int (if big then 0 else n) in
    let c = if big then [Model.TrueN] else b.circuit in
    let d = Model.build c nn in
    let st = ref (Model.fresh_scratch c) in
    let tbl = if big then None else table b n in
    let out = ref [] in
    let add0 v = out := v :: !out in
    let add v = match v with Diff _ when big -> () | _ -> add0 v in
    if big then bump "big_circuits_laws_only";
    let z l = Conv.zlist_of_ints l in
    (* cached core *)
    (match impl b "core" with
     | Some t ->
       let mc = List.sort compare (Conv.ints_of_zlist (Model.calculate_core c nn)) in
       if mc <> List.sort compare (ints t) then
         add (Diff ("core-cache", Printf.sprintf "Ddnnf.core: model [%s] impl [%s]"
                      (String.concat " " (List.map string_of_int mc)) (String.concat " " t)))
     | None -> ());
    let nops = ref 0 in
    List.iter (fun o ->
        incr nops;
        let name = List.hd o.op and args = List.tl o.op in
        let opdesc = String.concat " " o.op in
        (match o.pan with
         | Some msg -> add (Viol (sig_of name "panic", Printf.sprintf "request [%s] panicked: %s" opdesc msg))
         | None -> ());
        let res = match o.res with Some r -> r | None -> [] in
        (match name with
         | "count" ->
           let a = ints args in
           let (s', r) = Model.execute_query d (z a) !st in
           st := s';
           let mr = Conv.dec_of_z r in
           let ir = String.concat " " res in
           (match tbl with
            | Some t when o.pan = None ->
              let exp = string_of_int (mca t a) in
              if ir <> exp then
                add (Viol (sig_of "count" "wrong-partial",
                           Printf.sprintf "count [%s] = %s but %s models contain these literals" opdesc ir exp))
            | _ -> ());
           if o.pan = None && mr <> ir then add (Diff ("count", Printf.sprintf "[%s] model %s impl %s" opdesc mr ir))
         | "sat" ->
           let a = ints args in
           let mr = if Model.sat d (z a) then "1" else "0" in
           let ir = String.concat " " res in
           (match tbl with
            | Some t when o.pan = None ->
              let exp = if mca t a > 0 then "1" else "0" in
              if ir <> exp then
                add (Viol (sig_of "sat" "wrong", Printf.sprintf "sat [%s] = %s but count is %d" opdesc ir (mca t a)))
            | _ -> ());
           if o.pan = None && mr <> ir then add (Diff ("sat", Printf.sprintf "[%s] model %s impl %s" opdesc mr ir))
         | "satinc" ->
           let steps = List.map ints (split_on ";" args) in
           let mark = ref (List.map (fun _ -> false) c) in
           let mres = List.map (fun a ->
               let (m', r) = Model.sat_propagate d (z a) !mark None in
               mark := m'; if r then "1" else "0") steps in
           if o.pan = None && mres <> res then
             add (Diff ("satinc", Printf.sprintf "[%s] model %s impl %s" opdesc (String.concat " " mres) (String.concat " " res)));
           (match tbl with
            | Some t when o.pan = None && List.length res = List.length steps ->
              let rec go acc earlier_ok steps res =
                match steps, res with
                | a :: steps', r :: res' ->
                  let acc = acc @ a in
                  if earlier_ok then begin
                    let exp = if mca t acc > 0 then "1" else "0" in
                    if r <> exp then
                      add (Viol (sig_of "sat" "incremental",
                                 Printf.sprintf "incremental sat [%s]: answer %s after adding [%s], fresh query gives %s"
                                   opdesc r (String.concat " " (List.map string_of_int a)) exp))
                  end;
                  go acc (earlier_ok && r = "1") steps' res'
                | _ -> ()
              in
              go [] true steps res
            | _ -> ())
         | "core" ->
           let a = ints args in
           let (s', r) = Model.core_dead_with_assumptions d (z a) !st in
           st := s';
           let mr = Conv.ints_of_zlist r in
           let mr = if a = [] then List.sort compare mr else mr in
           let ir = ints res in
           (match tbl with
            | Some t when o.pan = None ->
              let ta = List.filter (fun m -> List.for_all (holds m) a) t in
              let fixed l = List.for_all (fun m -> holds m l) ta in
              let exp =
                if a = [] then
                  List.sort compare (List.filter fixed (List.concat_map (fun v -> [v; -v]) (List.init n (fun i -> i + 1))))
                else
                  List.concat_map (fun v -> (if fixed v then [v] else []) @ (if fixed (-v) then [-v] else []))
                    (List.init n (fun i -> i + 1)) in
              if ir <> exp then
                (* core:c2d-false-node was finding K7 (the syntactic core under-reported on c2d input
                   that keeps a false node); repaired by F22 (calculate_core ignores dead branches):
                   the class is an ordinary compared case now and the signature a DETECTOR without a
                   finding line - an occurrence is a VIOLATION *)
                let c2d_false = List.exists (fun (k, ls) -> k = "c2d" && List.mem "O 0 0" ls) b.files in
                add (Viol (sig_of "core" (if a = [] then (if c2d_false then "c2d-false-node" else "syntactic-incomplete") else "with-assumptions"),
                           Printf.sprintf "core [%s] = [%s] but the literals fixed in all models are [%s]" opdesc
                             (String.concat " " res) (String.concat " " (List.map string_of_int exp))))
            | _ -> ());
           if o.pan = None && mr <> ir then
             add (Diff ("core", Printf.sprintf "[%s] model [%s] impl [%s]" opdesc
                          (String.concat " " (List.map string_of_int mr)) (String.concat " " res)))
         | "cand" ->
           (match split_on "|" args with
            | [a; [x]] ->
              let a = ints a and x = int_of_string x in
              let (s1, r0) = Model.execute_query d (z a) !st in
              let (s2, r1) = Model.execute_query d (z (a @ [x])) s1 in
              st := s2;
              let mr = if Conv.dec_of_z r0 = Conv.dec_of_z r1 then [string_of_int x] else [] in
              (match tbl with
               | Some t when o.pan = None ->
                 let exp = if mca t (a @ [x]) = mca t a then [string_of_int x] else [] in
                 if res <> exp then
                   add (Viol (sig_of "core" "candidate", Printf.sprintf "candidate [%s]: reported [%s], expected [%s]"
                                opdesc (String.concat " " res) (String.concat " " exp)))
               | _ -> ());
              if o.pan = None && mr <> res then
                add (Diff ("cand", Printf.sprintf "[%s] model [%s] impl [%s]" opdesc (String.concat " " mr) (String.concat " " res)))
            | _ -> add (Diff ("cand", "bad op line")))
         | "table" ->
           let (s', rows) = Model.card_of_each_feature d !st in
           st := s';
           let mrows = List.map (fun (v, cnt) -> (Conv.int_of_z v, Conv.dec_of_z cnt)) rows in
           let irows = List.map (fun t -> match String.split_on_char ':' t with
               | [v; cnt; ratio] -> (int_of_string v, cnt, ratio) | _ -> (0, "?", "?")) res in
           if o.pan = None then begin
             if List.map (fun (v, cnt, _) -> (v, cnt)) irows <> mrows then
               add (Diff ("table", Printf.sprintf "model [%s] impl [%s]"
                            (String.concat " " (List.map (fun (v, cnt) -> Printf.sprintf "%d:%s" v cnt) mrows))
                            (String.concat " " res)));
             (* the ratio column against the extracted exact fraction (Model/Ratio.v, C04_ratio_exact) *)
             (match snd (Mdl.Ratio.card_of_each_feature_ratio d !st) with
              | Some rrows when List.length rrows = List.length irows ->
                bump_by "ratio_rows_compared" (List.length rrows);
                List.iteri (fun i (((_, _), (a, b)), (_, _, ratio)) ->
                    let e = float_of_string (Conv.dec_of_z a) /. float_of_string (Conv.dec_of_z b) in
                    let r = try float_of_string ratio with _ -> nan in
                    if not (Float.abs (r -. e) <= 1e-9 *. Float.max 1.0 (Float.abs e)) then
                      add (Diff ("table-ratio", Printf.sprintf "row %d: impl ratio %s, model %s/%s" (i + 1) ratio
                                   (Conv.dec_of_z a) (Conv.dec_of_z b)))) (List.combine rrows irows)
              | Some _ -> ()
              | None -> add (Diff ("table-ratio", "model: Ratio::new panics (total count 0), the implementation answered")));
             (match tbl with
              | Some t ->
                let total = List.length t in
                if List.length irows <> n then
                  add (Viol (sig_of "table" "rows", Printf.sprintf "%d rows for %d features" (List.length irows) n));
                List.iteri (fun i (v, cnt, ratio) ->
                    let exp = mca t [i + 1] in
                    if v <> i + 1 || cnt <> string_of_int exp then
                      add (Viol (sig_of "table" "cardinality",
                                 Printf.sprintf "row %d: feature %d cardinality %s, %d models select feature %d" (i + 1) v cnt exp (i + 1)))
                    else begin
                      let r = try float_of_string ratio with _ -> nan in
                      let e = float_of_int exp /. float_of_int total in
                      if not (Float.abs (r -. e) <= 1e-9 *. Float.max 1.0 (Float.abs e)) then
                        add (Viol (sig_of "table" "ratio", Printf.sprintf "row %d: ratio %s, expected %d/%d" (i + 1) ratio exp total))
                    end) irows
              | None -> ())
           end
         | "tablex" ->
           (* expected table supplied as a closed form by the harness (exact integers) *)
           (match o.fresh with
            | Some exp when o.pan = None ->
              bump "closed_form_tables";
              if List.length exp <> List.length res then
                add (Viol (sig_of "table" "rows", Printf.sprintf "%d rows, expected %d" (List.length res) (List.length exp)))
              else
                List.iteri (fun i (e, r) ->
                    match String.split_on_char ':' e, String.split_on_char ':' r with
                    | [ev; ec; er], [rv; rc; rr] ->
                      if ev <> rv || ec <> rc then
                        add (Viol (sig_of "table" "cardinality", Printf.sprintf "row %d: %s:%s expected %s:%s" (i + 1) rv rc ev ec))
                      else begin
                        let x = try float_of_string rr with _ -> nan and y = float_of_string er in
                        if not (Float.abs (x -. y) <= 1e-9 *. Float.max 1.0 (Float.abs y)) then
                          add (Viol (sig_of "table" "ratio", Printf.sprintf "row %d: ratio %s, expected %s" (i + 1) rr er))
                      end
                    | _ -> add (Diff ("tablex", "bad row"))) (List.combine exp res)
            | _ -> ())
         | "satsub" ->
           let steps = List.map (fun toks ->
               match split_on "@" toks with
               | [a; [r]] -> (ints a, (if r = "root" then None else Some (Conv.nat_of_int (int_of_string r))))
               | _ -> ([], None)) (split_on ";" args) in
           let mark = ref (List.map (fun _ -> false) c) in
           let mres = List.map (fun (a, r) ->
               let (m', ans) = Model.sat_propagate d (z a) !mark r in
               mark := m'; if ans then "1" else "0") steps in
           if o.pan = None && mres <> res then
             add (Diff ("satsub", Printf.sprintf "[%s] model %s impl %s" opdesc (String.concat " " mres) (String.concat " " res)));
           (* model-free oracle: while every earlier answer was 'satisfiable', the answer equals the
              one of a fresh propagation of all literals added so far at the same (sub-)root;
              root answers are also judged by the truth table *)
           (match o.fresh with
            | Some fr when o.pan = None && List.length fr = List.length res ->
              let rec go ok acc steps rs fs =
                match steps, rs, fs with
                | (a, root) :: st', r :: rs', f :: fs' ->
                  let acc = acc @ a in
                  if ok && r <> f then
                    add (Viol (sig_of "sat" "incremental-subroot",
                               Printf.sprintf "[%s] kept mark vector answers %s after adding [%s], a fresh propagation of all literals so far answers %s"
                                 opdesc r (String.concat " " (List.map string_of_int a)) f));
                  (match tbl, root with
                   | Some t, None when ok ->
                     let exp = if mca t acc > 0 then "1" else "0" in
                     if r <> exp then
                       add (Viol (sig_of "sat" "incremental", Printf.sprintf "[%s] root answer %s, %d models contain all literals added so far" opdesc r (mca t acc)))
                   | _ -> ());
                  go (ok && r = "1") acc st' rs' fs'
                | _ -> ()
              in
              go true [] steps res fr
            | _ -> ())
         | "law" ->
           (match split_on "|" args with
            | [a; [x]] ->
              let a = ints a and x = int_of_string x in
              let (s1, c0) = Model.execute_query d (z a) !st in
              let (s2, c1) = Model.execute_query d (z (a @ [x])) s1 in
              let (s3, c2) = Model.execute_query d (z (a @ [-x])) s2 in
              st := s3;
              let ms = Model.sat d (z a) in
              let mr = [Conv.dec_of_z c0; Conv.dec_of_z c1; Conv.dec_of_z c2; (if ms then "1" else "0")] in
              if o.pan = None && mr <> res then
                add (Diff ("law", Printf.sprintf "[%s] model [%s] impl [%s]" opdesc (String.concat " " mr) (String.concat " " res)));
              (match res with
               | [i0; i1; i2; isat] when o.pan = None ->
                 let sum = Conv.dec_of_z (Model.Z.add (Conv.z_of_dec i1) (Conv.z_of_dec i2)) in
                 if sum <> i0 then
                   add (Viol (sig_of "count" "law-split", Printf.sprintf "[%s] count(A)=%s but count(A,x)+count(A,-x)=%s" opdesc i0 sum));
                 if (isat = "1") <> (i0 <> "0") then
                   add (Viol (sig_of "sat" "vs-count", Printf.sprintf "[%s] sat=%s but count=%s" opdesc isat i0))
               | _ -> ())
            | _ -> add (Diff ("law", "bad op line")))
         | "marked" ->
           let a = ints args in
           let (s', r) = Model.get_marked_nodes_clone d (z a) !st in
           st := s';
           let mr = List.map (fun x -> string_of_int (Conv.int_of_nat x)) r in
           if o.pan = None && mr <> res then
             add (Diff ("marked", Printf.sprintf "[%s] model [%s] impl [%s]" opdesc (String.concat " " mr) (String.concat " " res)))
         | _ -> add (Diff ("op", "unknown op " ^ name)));
        (* Clean invariant *)
        let mclean = List.for_all (fun m -> not m) (Model.marks !st) && Model.mdl !st = [] in
        if not o.clean then
          add (Diff ("clean", Printf.sprintf "after [%s] the implementation's markers/md are not reset" opdesc));
        if not mclean then add (Diff ("clean-model", Printf.sprintf "after [%s] the model state is not Clean" opdesc))
      ) (collect_ops b);
    bump_by (prop ^ "_requests") !nops;
    if tbl <> None then bump (prop ^ "_blocks_with_truth_table");
    ignore prop;
    if !out = [] then [Ok] else List.rev !out

let kinds = [ "C02", check_kind "C02"; "C03", check_kind "C03"; "C04", check_kind "C04";
              "C05", check_kind "C05"; "C16", check_kind "C16" ]
