(* C11: incremental clause edits (harness/src/k_c11.rs).
   ORACLE (independent of the model): the truth table of edit_spec on the SOURCE formula -
   conjunction with the added clauses / removal of clauses from the source clause set over
   n' = max n (largest added variable) features.  Every answer of the battery after every edit is
   judged against it.  The signature of a violation names the INPUT CLASS of the failing step
   (decided from the history alone, in a fixed order), so that a recorded finding for one class
   does not hide a failure in another.
   MODEL (extracted Model/Edit.v): reduce_clause, prepare + dispatch (where the facts are known),
   unit_edit = the dumped vector after a UnitClause step (exact), reflatten = identity on every
   dumped vector (the DfsPostOrder model), check_wf of every dumped vector (also modulo dead
   or-children: strip_dead). *)
open Blocks
module E = Mdl.Edit

let ints = List.map int_of_string
let istr l = String.concat " " (List.map string_of_int l)

let rec split_on sep = function
  | [] -> [[]]
  | x :: r when x = sep -> [] :: split_on sep r
  | x :: r -> (match split_on sep r with h :: t -> (x :: h) :: t | [] -> [[x]])

(* ---------- case structure ---------- *)
type step = {
  k : int;
  edit : (bool * int list) list;          (* is_add, clause as written *)
  mutable strategy : string option;
  mutable panic : string option;
  mutable circ : Model.ntype list option;
  mutable bat : (string * string list) list;
  mutable samples : string list list;
  mutable reds : (int list * string list) list;
}

let parse_edit toks =
  if toks = ["load"] then []
  else
    List.filter_map (function
        | "add" :: c -> Some (true, ints c)
        | "rmv" :: c -> Some (false, ints c)
        | _ -> None) (split_on ";" toks)

let steps_of (b : block) : step list =
  let cur = ref None and acc = ref [] in
  let flush () = match !cur with Some s -> acc := s :: !acc | None -> () in
  List.iter (fun (kw, t) ->
      match kw, t with
      | "step", k :: rest ->
        flush ();
        cur := Some { k = int_of_string k; edit = parse_edit rest; strategy = None; panic = None;
                      circ = None; bat = []; samples = []; reds = [] }
      | _ ->
        (match !cur with
         | None -> ()
         | Some s ->
           (match kw, t with
            | "impl", "strategy" :: [st] -> s.strategy <- Some st
            | "impl", "panic" :: m -> s.panic <- Some (String.concat " " m)
            | "circ", toks -> s.circ <- Some (List.map parse_node (split_on "|" toks))
            | "b", "sample" :: r -> s.samples <- s.samples @ [r]
            | "b", key :: r -> s.bat <- s.bat @ [(key, r)]
            | "red", toks ->
              (match split_on "=>" toks with
               | [c; r] -> s.reds <- s.reds @ [(ints c, r)]
               | _ -> ())
            | _ -> ()))) b.lines;
  flush ();
  List.rev !acc

(* ---------- the specification side (plain OCaml, bit masks) ---------- *)
let holds (m : int) (l : int) : bool =
  let bit = (m lsr (abs l - 1)) land 1 = 1 in
  if l > 0 then bit else not bit

let norm_clause (c : int list) : int list option =
  if c = [] || List.exists (fun l -> List.mem (-l) c) c then None else Some (List.sort_uniq compare c)

let models_of_cls (cls : int list list) (n : int) : int list =
  List.filter (fun m -> List.for_all (fun c -> List.exists (holds m) c) cls) (List.init (1 lsl n) (fun i -> i))

type ostate = { cls : int list list option; models : int list; n : int }

let maxvar cs = List.fold_left (fun a c -> List.fold_left (fun a l -> max a (abs l)) a c) 0 cs

(* edit_spec: removal from the clause set, conjunction with the added clauses, n' = max n maxvar *)
let edit_spec (st : ostate) (adds : int list list) (rmvs : int list list) : ostate option =
  let n' = max st.n (maxvar adds) in
  match st.cls with
  | Some cls ->
    let kept = List.filter (fun c -> not (List.mem c rmvs)) cls in
    let cls' = List.fold_left (fun acc c -> if List.mem c acc then acc else acc @ [c]) kept adds in
    Some { cls = Some cls'; models = models_of_cls cls' n'; n = n' }
  | None ->
    if rmvs <> [] then None (* no source clause set: only the inverse of the latest edit is specified *)
    else
      let low = (1 lsl st.n) - 1 in
      let ms = List.filter (fun m -> List.mem (m land low) st.models
                                     && List.for_all (fun c -> List.exists (holds m) c) adds)
          (List.init (1 lsl n') (fun i -> i)) in
      Some { cls = None; models = ms; n = n' }

let sem_core (st : ostate) : int list =
  List.sort compare
    (List.filter (fun l -> List.for_all (fun m -> holds m l) st.models)
       (List.concat_map (fun v -> [v; -v]) (List.init st.n (fun i -> i + 1))))

let cfg_mask (c : int list) = List.fold_left (fun a l -> if l > 0 then a lor (1 lsl (l - 1)) else a) 0 c
let cfg_ok n (c : int list) = List.map abs c = List.init n (fun i -> i + 1)

type fkind = Feature | Count | Core | Enum | Sample | BPanic

(* every answer of the battery against (models, n) *)
let judge (s : step) (st : ostate) : (fkind * string) list =
  let out = ref [] in
  let add k m = out := (k, m) :: !out in
  let get key = List.assoc_opt key s.bat in
  (match get "nvars" with
   | Some [nv] when int_of_string nv <> st.n ->
     add Feature (Printf.sprintf "number_of_variables = %s, expected %d" nv st.n)
   | _ -> ());
  if !out <> [] then List.rev !out
  else begin
    let total = List.length st.models in
    (match get "rc" with
     | Some [r] when r <> string_of_int total -> add Count (Printf.sprintf "count = %s, expected %d" r total)
     | Some ("panic" :: _) -> add BPanic "rc panicked"
     | _ -> ());
    let pair_list key =
      match get key with
      | Some ts -> List.map (fun t -> match String.split_on_char ':' t with
          | [a; v] -> (ints (String.split_on_char ',' a), v) | _ -> ([], "?")) ts
      | None -> [] in
    (try List.iter (fun (a, v) ->
         if v = "panic" then (add BPanic (Printf.sprintf "count [%s] panicked" (istr a)); raise Exit);
         let exp = List.length (List.filter (fun m -> List.for_all (holds m) a) st.models) in
         if v <> string_of_int exp then begin
           add Count (Printf.sprintf "count [%s] = %s, expected %d" (istr a) v exp); raise Exit end)
         (pair_list "cnt" @ pair_list "cnt2") with Exit -> ());
    (try List.iter (fun (a, v) ->
         if v = "panic" then (add BPanic (Printf.sprintf "sat [%s] panicked" (istr a)); raise Exit);
         let a = List.filter (fun l -> l <> 0) a in
         let exp = List.exists (fun m -> List.for_all (holds m) a) st.models in
         if v <> (if exp then "1" else "0") then begin
           add Count (Printf.sprintf "sat [%s] = %s, expected %b" (istr a) v exp); raise Exit end)
         (pair_list "sat") with Exit -> ());
    (match get "core" with
     | Some t ->
       let c = List.sort compare (ints t) and e = sem_core st in
       if c <> e then add Core (Printf.sprintf "core = [%s], literals fixed in all models: [%s]" (istr c) (istr e))
     | None -> ());
    let cfgs_of toks = if toks = ["empty"] then [] else List.map ints (split_on ";" toks) in
    (match get "enum" with
     | Some ("panic" :: m) -> add BPanic ("enumerate panicked: " ^ String.concat " " m)
     | Some ["none"] -> if total > 0 then add Enum "enumerate returned None for a satisfiable formula"
     | Some toks ->
       let cfgs = cfgs_of toks in
       (* the harness asks for at most 5000 configurations: beyond that a page of 5000 distinct models *)
       let page_ok = total > 5000 && List.length cfgs = 5000
                     && List.for_all (cfg_ok st.n) cfgs
                     && (let ms = List.sort_uniq compare (List.map cfg_mask cfgs) in
                         List.length ms = 5000 && List.for_all (fun m -> List.mem m st.models) ms) in
       if page_ok then ()
       else if not (List.for_all (cfg_ok st.n) cfgs)
       || List.sort compare (List.map cfg_mask cfgs) <> List.sort compare st.models then
         add Enum (Printf.sprintf "a full enumeration cycle returned %d configurations that are not exactly the %d models"
                     (List.length cfgs) total)
     | None -> ());
    List.iter (fun t ->
        match t with
        | _ :: _ :: ("panic" :: m) -> add BPanic ("uniform_random_sampling panicked: " ^ String.concat " " m)
        | _ :: _ :: ["none"] -> if total > 0 then add Sample "sampling returned None for a satisfiable formula"
        | _ :: k :: toks ->
          let cfgs = cfgs_of toks in
          if total > 0 && (List.length cfgs <> int_of_string k
                           || List.exists (fun c -> not (cfg_ok st.n c) || not (List.mem (cfg_mask c) st.models)) cfgs) then
            add Sample "a sample is not a model (or the wrong number of samples)"
        | _ -> ()) s.samples;
    List.rev !out
  end

(* unit propagation applies to the clause set: some unit clause's variable occurs in another clause *)
let unit_reducible (cls : int list list) : bool =
  List.exists (fun c -> match c with
      | [u] -> List.exists (fun d -> d <> c && (List.mem u d || List.mem (-u) d)) cls
      | _ -> false) cls

let eff (e : (bool * int list) list) : (bool * int list) list =
  List.sort_uniq compare (List.filter_map (fun (a, c) -> Option.map (fun c -> (a, c)) (norm_clause c)) e)

let has_dead (c : Model.ntype list) : bool =
  List.exists (fun x -> Conv.int_of_z x = 0) (Model.counts c)

(* ---------- model side helpers ---------- *)
let zc (c : int list) = Conv.zlist_of_ints c
let zcs (cs : int list list) = List.map zc cs
let set_of_z (c : Model.z list) = List.sort_uniq compare (Conv.ints_of_zlist c)
let sets_of_zz (cs : Model.z list list) = List.sort compare (List.map set_of_z cs)

(* K38 input class: applying the edit to the source clause set a SECOND time (adjust_intern_cnf of
   the model, which unit-propagates in between) changes the formula: some clause was shortened to
   one of the removed clauses *)
let second_round_differs (cls : int list list) (n : int) (adds : int list list) (rmvs : int list list) : bool =
  rmvs <> [] && cls <> [] &&
  begin
    let once = E.adjust_intern_cnf (zcs cls) (zcs adds) (zcs rmvs) in
    let twice = E.adjust_intern_cnf once (zcs adds) (zcs rmvs) in
    let ms x = models_of_cls (List.map Conv.ints_of_zlist x) n in
    ms once <> ms twice
  end

let reduced_text (r : Model.z list option) : string list =
  match r with
  | None -> ["none"]
  | Some c -> "some" :: List.map string_of_int (List.sort compare (Conv.ints_of_zlist c))

let wf_parts c n =
  let nn = Conv.nat_of_int n in
  [ "idx_ok", Model.idx_ok c; "decomposable", Model.decomposable c; "smooth", Model.smooth c;
    "complete", Model.complete c nn; "det_cert", Model.det_cert c; "unique_leaves", Model.unique_leaves c;
    "lits_nonzero", Model.lits_nonzero c; "all_reachable", Model.all_reachable c ]

(* an entry of the undo cache: the key, whether it holds a whole graph (Recompile) or a sub-DAG, and
   the clause list / variable count from BEFORE the edit, which an Undo restores (repair F25) *)
type centry = { c_add : int list list; c_rmv : int list list; right : bool;
                stored_before : int list list; nvars_before : int }
type cache = Known of centry list | Unknown

let sig_of_kind = function
  | Feature -> "edit:feature-count" | Count -> "edit:wrong-count" | Core -> "edit:wrong-core"
  | Enum -> "edit:wrong-enumeration" | Sample -> "edit:wrong-sample" | BPanic -> "edit:panic"

let check_rc (b : block) : verdict list =
  let out = ref [] in
  List.iter (fun (kw, toks) ->
      if kw = "rc" then
        match split_on "=>" toks with
        | [lhs; r] ->
          (match split_on "|" lhs with
           | [c; d] ->
             bump "C11_reduce_clause_compared";
             let m = reduced_text (E.reduce_clause (zc (ints c)) (zc (ints d))) in
             if m <> r then
               out := Diff ("reduce_clause", Printf.sprintf "reduce_clause [%s] | [%s]: model %s, impl %s"
                              (String.concat " " c) (String.concat " " d) (String.concat " " m) (String.concat " " r)) :: !out
           | _ -> ())
        | _ -> ()) b.lines;
  if !out = [] then [Ok] else List.rev !out

let check (b : block) : verdict list =
  let mode = match find b "mode" with Some (m :: _) -> m | _ -> "?" in
  if mode = "rc" then check_rc b
  else begin
    let out = ref [] in
    let add v = out := v :: !out in
    let steps = steps_of b in
    (match impl b "panic-load" with
     | Some m -> add (Viol ("edit:load-panic", "loading panicked: " ^ String.concat " " m))
     | None -> ());
    let n0 = Chk_c01.int_n b in
    let init : ostate =
      if mode = "cnf" then begin
        let src = match find b "src_cnf" with Some t -> t | None -> [] in
        let cls = List.fold_left (fun acc c ->
            match norm_clause (ints c) with
            | Some c when not (List.mem c acc) -> acc @ [c]
            | _ -> acc) [] (split_on ";" src) in
        { cls = Some cls; models = models_of_cls cls n0; n = n0 }
      end else
        { cls = None; models = (match find b "src_models" with Some t -> ints t | None -> []); n = n0 } in
    (* ---- model-side state ---- *)
    let stored = ref (match init.cls with
        | Some _ ->
          let src = match find b "src_cnf" with Some t -> t | None -> [] in
          let raw = List.filter (fun c -> c <> []) (List.map ints (split_on ";" src)) in
          sets_of_zz (E.simplify_clauses (zcs raw))
        | None -> []) in
    let ig_nvars = ref n0 in
    let cache = ref (Known []) in
    let stored_known = ref true in     (* false after an Undo of an entry the cache model does not know *)
    (* ---- oracle-side state ---- *)
    let hist = ref [init] in           (* states, newest first *)
    (* further states that fit every answer so far: where the two readings of an inverse edit (the
       edit_spec of the inverse / the previous state restored) give the same answers but different
       clause sets, the implementation may follow either, and later edits tell them apart *)
    let alts : ostate list ref = ref [] in
    let prev_edit = ref None in
    let judged_ok = ref true in        (* false after the first failing step: later steps are not judged *)
    let latent : string option ref = ref None in
    let older_edits = ref [] in
    let prev_circ = ref None in
    let strategies = ref [] in
    let hist_es : ((bool * int list) list * string) list ref = ref [] in   (* (edit, strategy), most recent first *)
    List.iter (fun (s : step) ->
        let st = List.hd !hist in
        let ctx = Printf.sprintf "step %d [%s]" s.k
            (String.concat " ; " (List.map (fun (a, c) -> (if a then "add " else "rmv ") ^ istr c) s.edit)) in
        (* ---------------- model: reduce_clause / prepare ---------------- *)
        List.iter (fun (c, r) ->
            bump "C11_reduce_clause_compared";
            let m = reduced_text (E.reduce_clause (zc c) []) in
            if m <> r then add (Diff ("reduce_clause", Printf.sprintf "%s: reduce_clause [%s]: model %s, impl %s"
                                        ctx (istr c) (String.concat " " m) (String.concat " " r)))) s.reds;
        let op_add, op_rmv =
          match E.prepare (List.map (fun (a, c) -> (zc c, if a then E.AddC else E.RemoveC)) s.edit) with
          | E.Prepared (a, r) -> (List.map set_of_z a, List.map set_of_z r)
          | E.PreparePanic -> add (Diff ("prepare", ctx ^ ": the model panics in prepare")); ([], []) in
        if s.k = 0 then begin
          (* the load *)
          let f = judge s st in
          if f <> [] then begin
            judged_ok := false;
            add (Viol ("edit:load-wrong", Printf.sprintf "after loading: %s" (snd (List.hd f))))
          end
        end else begin
          let e = eff s.edit in
          let adds = List.filter_map (fun (a, c) -> if a then Some c else None) e in
          let rmvs = List.filter_map (fun (a, c) -> if a then None else Some c) e in
          let strat = match s.strategy with Some x -> x | None -> "-" in
          (* ---------------- model: dispatch ---------------- *)
          let prev_flag key = match !prev_circ with
            | Some _ -> (match List.assoc_opt key (match List.filter (fun (x : step) -> x.k = s.k - 1) steps with
                | p :: _ -> p.bat | [] -> []) with Some ["1"] -> Some true | Some ["0"] -> Some false | _ -> None)
            | None -> None in
          let root0 = prev_flag "root0" in
          let fromcnf = prev_flag "fromcnf" in
          (* find_and_remove = cache_find over the keys (first matching entry from the front) *)
          let hit = match !cache with
            | Unknown -> None
            | Known l ->
              let found = List.find_opt (fun en -> E.cache_matches (zcs en.c_add) (zcs en.c_rmv) (zcs op_add) (zcs op_rmv)) l in
              (match E.cache_find (List.map (fun en -> (zcs en.c_add, zcs en.c_rmv)) l) (zcs op_add) (zcs op_rmv), found with
               | Some _, Some _ | None, None -> ()
               | _ -> add (Diff ("cache_find", ctx ^ ": cache_find and cache_matches disagree")));
              Some found in
          (match s.panic, hit, root0, fromcnf with
           | None, Some h, Some r0, Some fc when !stored_known ->
             let facts = { E.cache_hit = (h <> None); ig_nvars = Conv.z_of_int !ig_nvars;
                           stored_cnf_empty = (!stored = []); root_is_node0 = r0; from_cnf = fc } in
             bump "C11_dispatch_compared";
             (match E.dispatch facts (zcs op_add) (zcs op_rmv) with
              | E.Decided d ->
                let name = match d with
                  | E.StTautology -> "Tautology" | E.StUnitClause -> "UnitClause"
                  | E.StSubDAGReplacement -> "SubDAGReplacement" | E.StRecompile -> "Recompile" | E.StUndo -> "Undo"
                  | E.StError -> "Error" in
                if name <> strat then
                  add (Diff ("dispatch", Printf.sprintf "%s: model decides %s, implementation answered %s" ctx name strat))
              | E.GraphDependent ->
                if not (List.mem strat ["SubDAGReplacement"; "Recompile"; "Tautology"]) then
                  add (Diff ("dispatch", Printf.sprintf "%s: graph-dependent case answered %s" ctx strat)))
           | _ -> bump "C11_dispatch_facts_unknown");
          (* model-side bookkeeping of the stored clause list / cache *)
          let stored_before = !stored in
          let nvars_before = !ig_nvars in
          (match strat with
           | "UnitClause" ->
             (match op_add with
              | [[l]] -> stored := sets_of_zz (E.adjust_intern_cnf (zcs !stored) [zc [l]] [])
              | _ -> ());
             ig_nvars := max !ig_nvars (maxvar op_add);
             (* add_unit_clause re-creates the cache (repair F17): E.cache_after_unit = [] whatever it held *)
             cache := Known []
           | "SubDAGReplacement" | "Recompile" ->
             (* the edit is applied to the stored list once, also for Recompile (E.recompile_stored, repair F23) *)
             stored := sets_of_zz ((if strat = "Recompile" then E.recompile_stored else E.adjust_intern_cnf)
                                     (zcs !stored) (zcs op_add) (zcs op_rmv));
             ig_nvars := max !ig_nvars (maxvar op_add);
             let en = { c_add = op_add; c_rmv = op_rmv; right = (strat = "Recompile");
                        stored_before; nvars_before } in
             cache := (if en.right then Known [en]
                       else match !cache with Known [] -> Known [en] | _ -> Unknown)
           | "Tautology" ->
             if stored_before <> [] && not (op_add = [] && op_rmv = []) then begin
               stored := sets_of_zz (E.adjust_intern_cnf (zcs !stored) (zcs op_add) (zcs op_rmv));
               ig_nvars := max !ig_nvars (maxvar op_add)
             end
           | "Undo" ->
             (match hit with
              | Some (Some en) ->
                let rest = match !cache with Known l -> List.filter (fun x -> x != en) l | Unknown -> [] in
                (* an Undo brings back the clause list and the variable count cached with the entry (F25) *)
                let en' = { c_add = en.c_rmv; c_rmv = en.c_add; right = en.right; stored_before; nvars_before } in
                stored := en.stored_before; ig_nvars := en.nvars_before;
                if en.right then cache := Known [en']
                else cache := (if rest = [] then Known [en'] else Unknown)
              | _ -> cache := Unknown; stored_known := false)
           | _ -> ());
          (* ---------------- oracle ---------------- *)
          let is_inverse =
            match !prev_edit with
            | Some p -> e <> [] && List.sort compare (List.map (fun (a, c) -> (not a, c)) p) = e
            | None -> false in
          let primary = edit_spec st adds rmvs in
          let alt = if is_inverse && List.length !hist >= 2 then Some (List.nth !hist 1) else None in
          (* a removal may also give the feature count back: the same clause set over the feature count
             of an earlier state of this history (when no remaining clause mentions a larger variable) *)
          let shrunk = match primary with
            | Some ({ cls = Some cls'; _ } as p) when rmvs <> [] ->
              List.filter_map (fun (h : ostate) ->
                  if h.n < p.n && h.n >= maxvar cls' then Some { p with n = h.n; models = models_of_cls cls' h.n } else None)
                (List.sort_uniq compare !hist)
            | _ -> [] in
          let cands = (match primary with Some p -> [p] | None -> []) @ (match alt with Some a -> [a] | None -> []) @ shrunk
                      @ List.filter_map (fun a -> edit_spec a adds rmvs) !alts in
          (* ---- the input class of this step (decided from the history and the returned strategy only,
             in a fixed order) and the first class met earlier in this history (a defect of an earlier
             step may stay invisible until a later one: the stored clause list is already wrong) ---- *)
          let new_var = List.exists (fun c -> List.exists (fun l -> abs l > st.n) c) adds in
          let unit_old = (match adds, rmvs with [[l]], [] -> abs l <= st.n | _ -> false) in
          let earlier_undo = List.mem "Undo" !strategies in
          let earlier_unit = List.mem "UnitClause" !strategies in
          let earlier_subdag = List.mem "SubDAGReplacement" !strategies in
          let own_class : string option =
            if mode = "nnf" then begin
              (* K3 / K20 (repaired by F27 / F28): detectors; K21: a removal on an nnf-loaded model is
                 refused (Error, since F28) - the inverse edit does not restore the previous answers *)
              if new_var && strat = "Tautology" then Some "edit:new-variable-clause"
              else if new_var && strat = "Recompile" then Some "edit:nnf-recompile-forgets-model"
              else if rmvs <> [] then Some "edit:nnf-removal"
              else None
            end else begin
              let cls = match st.cls with Some c -> c | None -> [] in
              let present_rmvs = List.filter (fun c -> List.mem c cls) rmvs in
              let core_shrinks = match primary with
                | Some post -> List.exists (fun l -> not (List.mem l (sem_core post))) (sem_core st)
                | None -> false in
              (* a feature that is unconstrained in the formula before the edit *)
              let free_feature =
                List.exists (fun v -> List.for_all (fun m -> List.mem (m lxor (1 lsl (v - 1))) st.models) st.models)
                  (List.init st.n (fun i -> i + 1)) in
              (* the exact inverse of an OLDER edit of this history (other edits in between) *)
              let inverse_of_older =
                List.exists (fun p -> e <> [] && List.sort compare (List.map (fun (a, c) -> (not a, c)) p) = e) !older_edits in
              (* an older entry that survives an edit which pushed its own entry (sub-DAG replacement,
                 recompile, undo) and is then answered Undo: edit:undo-stale-after-entry.
                 DETECTORS for repaired defects (no finding line: an occurrence is a VIOLATION), named
                 by the observable misbehaviour, not by the shape of the input:
                   edit:undo-stale           Undo for the inverse of an OLDER edit with only entry-less
                                             edits (unit edits, ignored edits) in between - K34,
                                             repaired by F17 (add_unit_clause re-creates the cache)
                   edit:undo-partial-match   Undo for an edit that is the inverse of no edit of the
                                             history - K25, repaired by F15 (cache match in both directions)
                   edit:unit-add-drops-removal  UnitClause for an edit that removes clauses - K26,
                                             repaired by F16 (C11_dispatch_removal_not_unit) *)
              let between_left_entry =
                let inv p = e <> [] && List.sort compare (List.map (fun (a, c) -> (not a, c)) p) = e in
                let rec go acc = function
                  | [] -> false
                  | (p, s) :: r -> if acc <> [] && inv p then List.exists (fun s' -> List.mem s' ["SubDAGReplacement"; "Recompile"; "Undo"]) acc
                    else go (s :: acc) r in
                go [] !hist_es in
              if strat = "Undo" && not is_inverse && inverse_of_older && between_left_entry then Some "edit:undo-stale-after-entry"
              else if strat = "Undo" && not is_inverse && inverse_of_older then Some "edit:undo-stale"
              else if strat = "Undo" && not is_inverse then Some "edit:undo-partial-match"
              else if strat = "UnitClause" && rmvs <> [] then Some "edit:unit-add-drops-removal"
              (* K27 (repaired by F24), by the observable misbehaviour: an edit with effective added
                 clauses on an empty clause set answered Tautology *)
              else if adds <> [] && cls = [] && strat = "Tautology" then Some "edit:add-on-empty-cnf"
              (* K29 (repaired by F27): a unit clause over a new variable answered by a sub-DAG replacement *)
              else if new_var && strat = "SubDAGReplacement" && (match op_add, rmvs with [[_]], [] -> true | _ -> false)
              then Some "edit:new-variable-subdag"
              (* ---- recorded findings (input classes) ---- *)
              else if rmvs <> [] && unit_reducible cls then Some "edit:clause-removal"
              else if present_rmvs <> [] && core_shrinks && strat = "SubDAGReplacement" then Some "edit:removal-frees-core"
              else if free_feature && strat = "SubDAGReplacement" then Some "edit:free-feature-subdag"
              (* ---- input classes of REPAIRED defects (detectors: no finding line; they come after the
                 recorded classes because they are broad: "some earlier step was an Undo / a unit edit") ---- *)
              (* K38 (F23): Recompile applied the edit to the stored clause list twice *)
              else if strat = "Recompile" && second_round_differs cls (max st.n (maxvar adds)) adds rmvs then Some "edit:recompile-removes-shortened-clause"
              (* K22 / K33 (F25): the clause list was not restored by an Undo *)
              else if earlier_undo then Some "edit:after-undo-stale-cnf"
              (* K30 (recorded; F26 repaired the stale literal maps, what is left is the sub-DAG selection
                 on a graph that a unit edit has changed) *)
              else if earlier_unit && strat = "SubDAGReplacement" then Some "edit:subdag-after-unit-edit"
              (* K32 (F26) *)
              else if strat = "UnitClause" && earlier_unit && earlier_subdag then Some "edit:unit-after-subdag"
              else None
            end in
          let cls_for_failure = match own_class with Some c -> Some c | None -> !latent in
          let step_failed = ref false in
          (* the property is about edits that leave the formula satisfiable: when the state the
             oracle follows (e.g. the "previous answers restored" reading of an inverse edit) makes
             this edit unsatisfiable the history has left the input space *)
          if !judged_ok && cands <> [] && List.for_all (fun (c : ostate) -> c.models = []) cands then begin
            bump "C11_histories_left_the_input_space_unsatisfiable";
            judged_ok := false
          end;
          if !judged_ok && cands <> [] then begin
            bump "C11_steps_judged";
            match s.panic with
            | Some msg ->
              judged_ok := false; step_failed := true;
              let signature =
                match own_class with
                | Some c -> c ^ ":panic"
                | None ->
                  (* K31 (F26): a panic after a unit edit of the same history *)
                  if mode = "cnf" && earlier_unit then "edit:panic-after-unit-edit"
                  else match !latent with Some c -> c ^ ":panic" | None -> "edit:panic" in
              add (Viol (signature, Printf.sprintf "%s panicked: %s" ctx msg))
            | None ->
              let verdicts = List.map (fun c -> (c, judge s c)) cands in
              (match List.find_opt (fun (_, f) -> f = []) verdicts with
               | Some (c, _) ->
                 hist := c :: !hist;
                 alts := List.sort_uniq compare
                     (List.filter_map (fun (c', f) -> if f = [] && c' <> c then Some c' else None) verdicts)
               | None ->
                 judged_ok := false; step_failed := true;
                 let (exp, f) = List.hd verdicts in
                 hist := exp :: !hist;
                 let kinds = List.sort_uniq compare (List.map fst f) in
                 let msg = Printf.sprintf "%s answered %s: %s" ctx strat
                     (String.concat "; " (List.map snd (List.filteri (fun i _ -> i < 3) f))) in
                 let dead = match s.circ with Some c -> has_dead c | None -> false in
                 let signature =
                   match cls_for_failure with
                   | Some c -> c
                   | None ->
                     (* K4, repaired by F22 (calculate_core ignores dead branches): a DETECTOR without a
                        finding line, an occurrence is a VIOLATION *)
                     if unit_old && kinds = [Core] && dead then "edit:dead-branch-core"
                     else if is_inverse then "edit:inverse-not-restored"
                     else sig_of_kind (List.hd kinds) in
                 add (Viol (signature, msg)))
          end else if s.panic <> None && !judged_ok then begin
            judged_ok := false; step_failed := true;
            add (Viol ("edit:panic", Printf.sprintf "%s panicked: %s" ctx (Option.get s.panic)))
          end else bump "C11_steps_not_judged_after_first_failure";
          (match !latent, own_class with None, Some c -> latent := Some c | _ -> ());
          (match !prev_edit with Some p when e <> [] -> older_edits := p :: !older_edits | _ -> ());
          if e <> [] then prev_edit := Some e;
          strategies := strat :: !strategies;
          hist_es := (e, strat) :: !hist_es;
          (* ---------------- model: unit_edit ---------------- *)
          (match strat, op_add, !prev_circ, s.circ with
           | "UnitClause", [[l]], Some pc, Some c ->
             bump "C11_unit_edit_compared";
             (* a new variable (above IntermediateGraph.number_of_variables before the edit): unit_edit_new *)
             let m = if abs l <= nvars_before then E.unit_edit pc (Conv.z_of_int l)
               else (bump "C11_unit_edit_new_variable";
                     E.unit_edit_new pc (Conv.nat_of_int nvars_before) (Conv.z_of_int l)) in
             if m = c then bump "C11_unit_edit_exact"
             else if !judged_ok then
               (* the oracle accepts every answer of this step, yet the vector is not the model's *)
               add (Diff ("unit_edit", Printf.sprintf "%s: the model's unit_edit differs from the dumped vector (%d vs %d nodes)"
                            ctx (List.length m) (List.length c)))
             else
               (* this or an earlier step is a reported violation: the graph behind the vector is not
                  the graph the model starts from any more *)
               bump "C11_unit_edit_differs_after_a_violation"
           | _ -> ())
        end;
        (* ---------------- model: the dumped vector ---------------- *)
        (match s.circ with
         | Some c ->
           bump "C11_vectors";
           if E.reflatten c <> c then
             add (Diff ("reflatten", ctx ^ ": re-flattening the dumped vector (DfsPostOrder model) is not the identity"));
           let nv = match List.assoc_opt "nvars" s.bat with Some [x] -> int_of_string x | _ -> 0 in
           if Model.check_wf c (Conv.nat_of_int nv) then bump "C11_wf_accepted"
           else begin
             let c' = E.strip_dead c in
             if c' <> [] && Model.check_wf c' (Conv.nat_of_int nv) then bump "C11_wf_modulo_dead_children"
             else begin
               bump "C11_wf_rejected";
               (* a rejected vector is reported only when the oracle found nothing wrong with this history *)
               if not (List.exists (function Viol _ -> true | _ -> false) !out) then
                 add (Diff ("check_wf", Printf.sprintf "%s: dumped vector rejected by check_wf (%s) although every answer is right"
                              ctx (String.concat "," (List.filter_map (fun (k, v) -> if v then None else Some k) (wf_parts c nv)))))
             end
           end;
           (* the cached core (Ddnnf::rebuild recomputes it, F7; since the repair F22 calculate_core
              ignores dead branches: C11_unit_then_core) is the model's core of exactly this vector,
              dead nodes or not - whatever the oracle says about the step *)
           (match List.assoc_opt "core" s.bat with
            | Some t when List.length c <= 400 ->
              bump "C11_core_compared";
              let mc = List.sort compare (Conv.ints_of_zlist (Model.calculate_core c (Conv.nat_of_int nv))) in
              let ic = List.sort compare (ints t) in
              if mc <> ic then
                add (Diff ("core", Printf.sprintf "%s: Ddnnf.core [%s], the model's calculate_core on the dumped vector [%s]"
                             ctx (String.concat " " (List.map string_of_int ic)) (String.concat " " (List.map string_of_int mc))))
              else if has_dead c then bump "C11_core_exact_on_dead_vector"
            | _ -> ());
           prev_circ := Some c
         | None -> prev_circ := None)) steps;
    bump (if mode = "nnf" then "C11_histories_nnf" else "C11_histories_cnf");
    if !out = [] then [Ok] else List.rev !out
  end

let kinds = ["C11", check]
