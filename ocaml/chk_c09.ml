(* C09: t-wise sampling.
   C09   every recorded sample is judged by (a) the extracted, verified result checker
         Mdl.TwiseOk.twise_ok_models on the truth table of the DUMPED circuit and (b), independently, a direct
         brute force over the truth table of the SOURCE formula (src_models, bit masks): every
         configuration complete + a model, every valid min(t,n)-interaction covered.
   C09I  TIndicesIter / TInteractionIter (hook H7) against the extracted Mdl.TIter.t_indices /
         t_interactions, plus a direct enumeration oracle for 1 <= t <= m. *)
open Blocks

let ints toks = List.map int_of_string toks

let rec split_on sep = function
  | [] -> [[]]
  | x :: r when x = sep -> [] :: split_on sep r
  | x :: r -> (match split_on sep r with h :: t -> (x :: h) :: t | [] -> [[x]])

(* olog: None = no `olog` line, Some None = `olog absent` (hook H9 not in the sources), Some (Some l) = the records *)
type opline = { op : string list; res : string list option; pan : string option;
                olog : string list list option option }

let collect_ops (b : block) : opline list =
  let rec go acc cur = function
    | [] -> List.rev (match cur with Some c -> c :: acc | None -> acc)
    | ("op", t) :: r ->
      let acc = match cur with Some c -> c :: acc | None -> acc in
      go acc (Some { op = t; res = None; pan = None; olog = None }) r
    | ("olog", ["absent"]) :: r -> go acc (Option.map (fun c -> { c with olog = Some None }) cur) r
    | ("olog", _) :: r -> go acc (Option.map (fun c -> { c with olog = Some (Some []) }) cur) r
    | ("o", t) :: r ->
      go acc (Option.map (fun c ->
          match c.olog with Some (Some l) -> { c with olog = Some (Some (t :: l)) } | _ -> c) cur) r
    | ("r", t) :: r -> go acc (Option.map (fun c -> { c with res = Some t }) cur) r
    | ("panic", t) :: r -> go acc (Option.map (fun c -> { c with pan = Some (String.concat " " t) }) cur) r
    | _ :: r -> go acc cur r
  in
  go [] None b.lines

let popcount x = let rec go a x = if x = 0 then a else go (a + (x land 1)) (x lsr 1) in go 0 x

(* all bit masks over n positions with exactly k bits *)
let subsets n k =
  let r = ref [] in
  for s = (1 lsl n) - 1 downto 0 do if popcount s = k then r := s :: !r done;
  !r

let show_interaction n sub signs =
  let l = ref [] in
  for v = n downto 1 do
    if (sub lsr (v - 1)) land 1 = 1 then
      l := (if (signs lsr (v - 1)) land 1 = 1 then v else -v) :: !l
  done;
  String.concat " " (List.map string_of_int !l)

(* a configuration as printed: complete iff entry i is +-(i+1) for every i < n *)
let mask_of_complete n (c : int list) : int option =
  if List.length c <> n then None
  else
    let rec go i acc = function
      | [] -> Some acc
      | l :: r ->
        if l = i then go (i + 1) (acc lor (1 lsl (i - 1))) r
        else if l = -i then go (i + 1) acc r
        else None
    in
    go 1 0 c

let show_cfgs l = String.concat " ; " (List.map (fun x -> String.concat " " (List.map string_of_int x)) l)

let size_bucket k =
  if k = 0 then "0" else if k <= 2 then "1-2" else if k <= 5 then "3-5" else if k <= 10 then "6-10"
  else if k <= 20 then "11-20" else if k <= 50 then "21-50" else "51+"

(* cost bound for the extracted oracle (list-of-Z arithmetic): interactions x (models + sample) x t x n *)
let ext_budget = 40_000_000

let rec binom n k = if k < 0 || k > n then 0 else if k = 0 then 1 else binom (n - 1) (k - 1) * n / k

(* ---- replay of a recorded plain run in the extracted pipeline model (hook H9) ----
   The order decisions the implementation took (hash-set iteration order of the cross interactions
   per ZippingMerger::merge call, the order after sort_unstable, the trim decision, the shuffled
   literal list) are fed to Mdl.TwisePipeline.sample_t_wise as its oracles; the model must then
   return exactly the implementation's sample: the same configurations in the same order.
   A recorded list that is not a permutation of what the model asks to be ordered, a missing or a
   left-over record are reported as DIFF as well. *)
exception Replay_mismatch of string

let replay_run (b : block) (n : int) (t : int) (fitness : int list option) (records : string list list)
  : (int list list option, string) result =
  (* records arrive newest first *)
  let records = List.rev records in
  let ints_q : (int, int list list Queue.t) Hashtbl.t = Hashtbl.create 16 in
  let sort_q : (int, int list Queue.t) Hashtbl.t = Hashtbl.create 16 in
  let trim_q = Queue.create () and shuf_q = Queue.create () in
  let q_of h k = match Hashtbl.find_opt h k with Some q -> q | None -> let q = Queue.create () in Hashtbl.replace h k q; q in
  let cur = ref None in
  let flush () = match !cur with Some (node, acc) -> Queue.add (List.rev acc) (q_of ints_q node); cur := None | None -> () in
  List.iter (fun r ->
      match r with
      | ["ints"; node] -> flush (); cur := Some (int_of_string node, [])
      | "i" :: lits -> (match !cur with Some (node, acc) -> cur := Some (node, ints lits :: acc) | None -> ())
      | "sort" :: node :: perm -> flush (); Queue.add (ints perm) (q_of sort_q (int_of_string node))
      | "trim" :: bits -> flush (); Queue.add (List.map (fun x -> x = "1") bits) trim_q
      | "shuf" :: lits -> flush (); Queue.add (ints lits) shuf_q
      | _ -> ()) records;
  flush ();
  let mismatch = ref None in
  let note s = if !mismatch = None then mismatch := Some s in
  let ord_int node _phase _step (l : Model.z list list) : Model.z list list =
    let node = Conv.int_of_nat node in
    let li = List.map Conv.ints_of_zlist l in
    match Hashtbl.find_opt ints_q node with
    | Some q when not (Queue.is_empty q) ->
      let r = Queue.pop q in
      if List.sort compare r = List.sort compare li then List.map Conv.zlist_of_ints r
      else begin
        note (Printf.sprintf "node %d: the recorded interaction set (%d) is not the model's (%d)" node (List.length r) (List.length li)); l
      end
    | _ -> note (Printf.sprintf "node %d: the model orders a set of %d cross interactions, no record left" node (List.length li)); l
  in
  let ord_sort node (l : Mdl.TwiseCfg.sample list) : Mdl.TwiseCfg.sample list =
    let node = Conv.int_of_nat node in
    let k = List.length l in
    match Hashtbl.find_opt sort_q node with
    | Some q when not (Queue.is_empty q) ->
      let perm = Queue.pop q in
      if List.sort compare perm = List.init k (fun i -> i) then List.map (List.nth l) perm
      else begin note (Printf.sprintf "node %d: recorded sort order [%s] is not a permutation of 0..%d" node (String.concat " " (List.map string_of_int perm)) (k - 1)); l end
    | _ -> note (Printf.sprintf "node %d: the model sorts %d samples, no record left" node k); l
  in
  let trim_pick (cfgs : Model.z list list) : bool list =
    if Queue.is_empty trim_q then begin note "the model trims, no trim record"; [] end
    else begin
      let m = Queue.pop trim_q in
      if List.length m <> List.length cfgs then
        note (Printf.sprintf "trim record has %d entries, the model's sample %d configurations" (List.length m) (List.length cfgs));
      m
    end
  in
  let ord_shuf (l : Model.z list) : Model.z list =
    if Queue.is_empty shuf_q then begin note "the model shuffles, no shuf record"; l end
    else begin
      let r = Queue.pop shuf_q in
      let li = Conv.ints_of_zlist l in
      if List.sort compare r = List.sort compare li then Conv.zlist_of_ints r
      else begin note (Printf.sprintf "recorded shuffled literals [%s] are not a permutation of the model's [%s]"
                         (String.concat " " (List.map string_of_int r)) (String.concat " " (List.map string_of_int li))); l end
    end
  in
  let d = Model.build b.circuit (Conv.nat_of_int n) in
  let res =
    match fitness with
    | None -> Mdl.TwisePipeline.sample_t_wise d (Conv.nat_of_int t) ord_int ord_sort trim_pick ord_shuf
    | Some f -> Mdl.TwiseFitness.sample_t_wise_fit d (Conv.nat_of_int t) (Conv.zlist_of_ints f) trim_pick ord_shuf in
  let left = Hashtbl.fold (fun _ q a -> a + Queue.length q) ints_q 0
             + Hashtbl.fold (fun _ q a -> a + Queue.length q) sort_q 0
             + Queue.length trim_q + Queue.length shuf_q in
  match !mismatch with
  | Some s -> Error s
  | None ->
    if left > 0 then Error (Printf.sprintf "%d recorded decisions were not consumed by the model" left)
    else
      Ok (match res with
          | None -> None
          | Some r ->
            Some (match r with
                | Mdl.TwisePipeline.Void -> [[min_int]]
                | Mdl.TwisePipeline.Empty -> []
                | Mdl.TwisePipeline.WithSample _ ->
                  List.map Conv.ints_of_zlist (Mdl.TwisePipeline.sres_configs r)))

(* cost bound for a replay (interaction count x configurations x nodes, very rough) *)
let replay_budget = 60_000_000

let check_twise (b : block) : verdict list =
  match impl b "panic" with
  | Some msg -> [Viol ("load:panic", "loading panicked: " ^ String.concat " " msg)]
  | None ->
    let n = Chk_c01.int_n b in
    let nn = Conv.nat_of_int n in
    let out = ref [] in
    let add v = out := v :: !out in
    (* truth tables *)
    let src = match find b "src_models" with Some ms -> Some (List.map int_of_string ms) | None -> None in
    let circ_models_z = lazy (Model.models b.circuit nn) in
    let circ_masks = lazy (List.sort compare (List.map Chk_c01.mask_of_cfg (Lazy.force circ_models_z))) in
    let tbl = match src with Some t -> List.sort compare t | None -> Lazy.force circ_masks in
    if src = None then bump "c09_no_source_table";
    (match src with
     | Some t when n <= 10 ->
       if List.sort compare t <> Lazy.force circ_masks then
         add (Diff ("models-differ", "truth table of the dumped circuit differs from the source formula (see C01)"))
     | _ -> ());
    let is_model = Hashtbl.create 64 in
    List.iter (fun m -> Hashtbl.replace is_model m ()) tbl;
    let nmodels = List.length tbl in
    (* valid interactions per t, computed once *)
    let valid_cache = Hashtbl.create 8 in
    let valid_for tt =
      match Hashtbl.find_opt valid_cache tt with
      | Some v -> v
      | None ->
        let subs = subsets n tt in
        let h = Hashtbl.create 1024 in
        List.iter (fun m -> List.iter (fun s -> Hashtbl.replace h (s, m land s) ()) subs) tbl;
        Hashtbl.replace valid_cache tt (subs, h); (subs, h)
    in
    List.iter (fun o ->
        let opdesc = String.concat " " o.op in
        match o.op with
        | "twise" :: ts :: variant :: _ ->
          let t = int_of_string ts in
          let tt = min t n in
          bump (Printf.sprintf "c09_runs_%s" variant);
          (* tie to the model: replay of the recorded order decisions (plain library runs) *)
          (* the fitness variant (Model/TwiseFitness.v) is deterministic up to the trim decision and the shuffle *)
          let fit_vals = match o.op with
            | _ :: _ :: "fitness" :: vs -> (try Some (ints vs) with _ -> None)
            | _ -> None in
          (if variant = "plain" || (variant = "fitness" && fit_vals <> None) then
             match o.olog with
             | None | Some None -> bump "c09_replay_no_log"
             | Some (Some records) ->
               let nodes = List.length b.circuit in
               let cost = nodes * (binom n tt) * (1 lsl tt) * 40 in
               if nodes = 0 || cost > replay_budget then bump "c09_replay_skipped_cost"
               else begin
                 let impl_res =
                   match o.pan, o.res with
                   | Some _, _ -> `Panic
                   | None, Some ("VOID" :: _) -> `Cfgs [[min_int]]
                   | None, Some ("EMPTY" :: _) -> `Cfgs []
                   | None, Some ("S" :: rest) -> `Cfgs (List.filter (fun c -> c <> []) (List.map ints (split_on ";" rest)))
                   | _ -> `Other in
                 let tag = if variant = "plain" then "c09_replay" else "c09_fit_replay" in
                 match (try replay_run b n t (if variant = "plain" then None else fit_vals) records
                        with e -> Error ("exception " ^ Printexc.to_string e)) with
                 | Error msg ->
                   bump (tag ^ "_oracle_mismatch");
                   add (Diff ("twise-replay-oracle", Printf.sprintf "[%s] %s" opdesc msg))
                 | Ok m ->
                   (match m, impl_res with
                    | None, `Panic -> bump (tag ^ "_panic_agree")
                    | Some mc, `Cfgs ic when mc = ic -> bump (tag ^ "_equal"); bump_by (tag ^ "_equal_configs") (List.length ic)
                    | None, _ -> add (Diff ("twise-replay", Printf.sprintf "[%s] the model panics, the implementation does not" opdesc))
                    | Some _, `Panic -> add (Diff ("twise-replay", Printf.sprintf "[%s] the implementation panics, the model does not" opdesc))
                    | Some mc, `Cfgs ic ->
                      add (Diff ("twise-replay", Printf.sprintf "[%s] replayed model sample [%s] differs from the implementation's [%s]"
                                   opdesc (show_cfgs mc) (show_cfgs ic)))
                    | Some _, `Other -> add (Diff ("c09-protocol", "no usable result for " ^ opdesc)))
               end);
          bump (Printf.sprintf "c09_runs_n%s_t%d" (if n <= 3 then string_of_int n else if n <= 6 then "4-6" else if n <= 9 then "7-9" else "10+") t);
          (match o.pan, o.res with
           | Some msg, _ ->
             (* K36 input class: some node lists a child twice (checked on the dumped vector) *)
             let repeated = List.exists (fun nd ->
                 let cs = match nd with Model.And cs | Model.Or cs -> List.map Conv.int_of_nat cs | _ -> [] in
                 List.length (List.sort_uniq compare cs) <> List.length cs) b.circuit in
             add (Viol ((if repeated then "twise:panic:repeated-child" else "twise:panic"),
                        Printf.sprintf "[%s] panicked: %s" opdesc msg))
           | None, None -> add (Diff ("c09-protocol", "no result for " ^ opdesc))
           | None, Some ("ERROR" :: msg) ->
             add (Viol ("twise:error", Printf.sprintf "[%s] answered with an error: %s" opdesc (String.concat " " msg)))
           | None, Some ("VOID" :: _) ->
             if nmodels > 0 then
               add (Viol ("twise:unsat-mismatch",
                          Printf.sprintf "[%s] returned Void (false) but the formula has %d models" opdesc nmodels))
           | None, Some (tag :: rest) ->
             let cfgs =
               if tag = "EMPTY" then []
               else List.filter (fun c -> c <> []) (List.map ints (split_on ";" rest)) in
             let k = List.length cfgs in
             bump (Printf.sprintf "c09_size_t%d_%s" t (size_bucket k));
             bump_by (Printf.sprintf "c09_configs_t%d" t) k;
             (* (b) brute force on the source truth table *)
             let verdict_b = ref None in
             let set_b s m = if !verdict_b = None then verdict_b := Some (s, m) in
             let masks = List.filter_map (fun c ->
                 match mask_of_complete n c with
                 | None ->
                   set_b "twise:not-complete"
                     (Printf.sprintf "[%s] configuration [%s] is not a complete configuration over 1..%d in feature order"
                        opdesc (String.concat " " (List.map string_of_int c)) n);
                   None
                 | Some m ->
                   if not (Hashtbl.mem is_model m) then
                     set_b "twise:not-a-model"
                       (Printf.sprintf "[%s] configuration [%s] is not a model of the formula"
                          opdesc (String.concat " " (List.map string_of_int c)));
                   Some m) cfgs in
             let (subs, valid) = valid_for tt in
             let covered = Hashtbl.create 1024 in
             List.iter (fun m -> List.iter (fun s -> Hashtbl.replace covered (s, m land s) ()) subs) masks;
             let missing = Hashtbl.fold (fun key () acc -> if Hashtbl.mem covered key then acc else key :: acc) valid [] in
             bump_by "c09_valid_interactions_checked" (Hashtbl.length valid);
             (* t > n: the property speaks about sets of t literals over DISTINCT features, there is
                none, so coverage is vacuous; what the sampler does with min(t,n) there is recorded as
                an observation only (the plain sampler clamps and covers, the fitness variant does not:
                theorem C09_sample_t_wise_fitness_refuted_t_exceeds_n about the model) *)
             let clamped_uncovered = t > n && missing <> [] in
             if clamped_uncovered then bump ("c09_observed_t_exceeds_n_uncovered_" ^ variant);
             (match (if t > n then [] else List.sort compare missing) with
              | (s, sg) :: _ ->
                set_b "twise:uncovered-interaction"
                  (Printf.sprintf "[%s] %s%d of %d valid %d-interactions are in no configuration of the sample (%d configurations), e.g. {%s}"
                     opdesc (if tag = "EMPTY" then "sampler returned Empty (true): " else "")
                     (List.length missing) (Hashtbl.length valid) tt k (show_interaction n s sg))
              | [] -> ());
             (* (a) extracted verified checker on the dumped circuit's truth table *)
             let cost = binom n tt * (1 lsl tt) * (nmodels + k) * tt * n in
             if n <= 12 && cost <= ext_budget then begin
               bump "c09_ext_oracle_runs";
               let s_z = List.map Conv.zlist_of_ints cfgs in
               let ok_ext = Mdl.TwiseOk.twise_ok_models (Lazy.force circ_models_z) nn (Conv.nat_of_int t) s_z in
               (match ok_ext, (if clamped_uncovered && !verdict_b = None then Some ("clamped", "") else !verdict_b) with
                | true, None | false, Some _ -> ()
                | true, Some (s, m) ->
                  add (Diff ("oracle-disagree", "extracted twise_ok accepts, brute force says " ^ s ^ ": " ^ m))
                | false, None ->
                  add (Diff ("oracle-disagree", Printf.sprintf "[%s] extracted twise_ok rejects, brute force accepts" opdesc)))
             end else bump "c09_ext_oracle_skipped_cost";
             (match !verdict_b with Some (s, m) -> add (Viol (s, m)) | None -> ())
           | None, Some [] -> add (Diff ("c09-protocol", "empty result line for " ^ opdesc)))
        | _ -> add (Diff ("c09-protocol", "unknown op " ^ opdesc)))
      (collect_ops b);
    if !out = [] then [Ok] else List.rev !out

(* ---- iterator correspondence ---- *)
let cap = 512

let parse_lists (toks : string list) : int * int list list =
  match split_on "|" toks with
  | [[k]; rest] -> (int_of_string k, List.filter (fun l -> l <> []) (List.map ints (split_on ";" rest)))
  | [[k]] -> (int_of_string k, [])
  | _ -> failwith "bad result line"

(* all strictly decreasing t-tuples over [0,m) *)
let rec dec_tuples_direct m t hi =
  (* tuples of length t, strictly decreasing, entries < hi *)
  if t = 0 then [[]]
  else List.concat (List.init (max hi 0) (fun a -> List.map (fun r -> a :: r) (dec_tuples_direct m (t - 1) a)))

let show_ll l = String.concat " ; " (List.map (fun x -> String.concat " " (List.map string_of_int x)) l)

let check_iter (b : block) : verdict list =
  match find b "hook" with
  | Some ["0"] -> bump "c09_titer_hook_absent"; [Ok]
  | _ ->
    let dbg = (find b "dbg" = Some ["1"]) in
    let out = ref [] in
    let add v = out := v :: !out in
    let fuel = Conv.nat_of_int cap in
    List.iter (fun o ->
        let opdesc = String.concat " " o.op in
        let compare_model name (mouts : int list list) (stop : Mdl.TIter.tstop) =
          match stop, o.pan, o.res with
          | Mdl.TIter.TPanic, Some _, _ -> bump ("c09_" ^ name ^ "_panic_agree")
          | Mdl.TIter.TPanic, None, _ -> add (Diff (name, Printf.sprintf "[%s] model panics (after %d outputs), implementation does not" opdesc (List.length mouts)))
          | _, Some msg, _ -> add (Diff (name, Printf.sprintf "[%s] implementation panics (%s), model does not" opdesc msg))
          | _, None, Some r ->
            let (k, ll) = parse_lists r in
            if k <> List.length ll && not (List.for_all (fun l -> l = []) mouts) then
              add (Diff (name, Printf.sprintf "[%s] malformed result" opdesc))
            else if stop = Mdl.TIter.TFuel && k <> cap then
              add (Diff (name, Printf.sprintf "[%s] model still running after %d outputs, implementation stopped after %d" opdesc cap k))
            else if k <> List.length mouts || (ll <> mouts && not (List.for_all (fun l -> l = []) mouts)) then
              add (Diff (name, Printf.sprintf "[%s] model [%s] impl [%s]" opdesc (show_ll mouts) (show_ll ll)))
            else bump ("c09_" ^ name ^ "_equal")
          | _, None, None -> add (Diff (name, "no result for " ^ opdesc))
        in
        match o.op with
        | ["titer"; ms; ts] ->
          let m = int_of_string ms and t = int_of_string ts in
          let (mo, stop) = Mdl.TIter.t_indices dbg fuel (Conv.nat_of_int m) (Conv.nat_of_int t) in
          let mo = List.map (List.map Conv.int_of_nat) mo in
          compare_model "titer" mo stop;
          (* direct oracle *)
          if 1 <= t && t <= m then begin
            match o.pan, o.res with
            | Some msg, _ -> add (Viol ("titer:panic", Printf.sprintf "TIndicesIter::new(%d,%d) panicked: %s" m t msg))
            | None, Some r ->
              let (_, ll) = parse_lists r in
              let want = List.sort compare (dec_tuples_direct m t m) in
              if List.sort compare ll <> want then
                add (Viol ("titer:wrong-enumeration",
                           Printf.sprintf "TIndicesIter::new(%d,%d) produced %d tuples, not each strictly decreasing %d-tuple over 0..%d exactly once (%d)"
                             m t (List.length ll) t m (List.length want)))
              else bump "c09_titer_oracle_ok"
            | _ -> ()
          end
        | "tinter" :: ts :: "|" :: lits ->
          let t = int_of_string ts and lits = ints lits in
          let m = List.length lits in
          let (mo, stop) = Mdl.TIter.t_interactions dbg fuel (Conv.zlist_of_ints lits) (Conv.nat_of_int t) in
          let mo = List.map Conv.ints_of_zlist mo in
          compare_model "tinter" mo stop;
          if 1 <= t && t <= m then begin
            match o.pan, o.res with
            | Some msg, _ -> add (Viol ("titer:panic", Printf.sprintf "TInteractionIter over %d literals, t=%d panicked: %s" m t msg))
            | None, Some r ->
              let (_, ll) = parse_lists r in
              let arr = Array.of_list lits in
              let want = List.sort compare (List.map (fun ix -> List.sort compare (List.map (fun i -> arr.(i)) ix)) (dec_tuples_direct m t m)) in
              if List.sort compare (List.map (List.sort compare) ll) <> want then
                add (Viol ("titer:wrong-enumeration",
                           Printf.sprintf "TInteractionIter over [%s], t=%d: not every %d-subset exactly once" (String.concat " " (List.map string_of_int lits)) t t))
              else bump "c09_tinter_oracle_ok"
            | _ -> ()
          end
        | _ -> add (Diff ("c09-protocol", "unknown op " ^ opdesc)))
      (collect_ops b);
    if !out = [] then [Ok] else List.rev !out

let kinds = ["C09", check_twise; "C09I", check_iter]
