#!/bin/sh
# builds the driver from the extracted model (model.ml is produced by coq/Extract.v)
set -e
cd "$(dirname "$0")"
mkdir -p _build
cp model.ml model.mli conv.ml blocks.ml chk_*.ml driver.ml _build/
cd _build
CHK=$(ls chk_*.ml | sort | tr '\n' ' ')
ocamlfind ocamlopt -O3 -w -a -package unix model.mli model.ml conv.ml blocks.ml $CHK driver.ml -o driver 2>&1 || \
ocamlfind ocamlopt -w -a model.mli model.ml conv.ml blocks.ml $CHK driver.ml -o driver
