#!/bin/sh
# builds the driver from the extracted model (model.ml is produced by coq/Extract.v).
# Every chk_*.ml defines  let kinds : (string * (Blocks.block -> Blocks.verdict list)) list
set -e
cd "$(dirname "$0")"
rm -rf _build
mkdir -p _build
cp model.ml model.mli conv.ml blocks.ml chk_*.ml driver.ml _build/
cd _build
CHK=$(ocamlfind ocamldep -sort chk_*.ml)
{ printf 'let checkers = List.concat ['; for f in $CHK; do m=$(basename $f .ml); M=$(echo $m | cut -c1 | tr a-z A-Z)$(echo $m | cut -c2-); printf '%s.kinds; ' $M; done; echo ']'; } > registry.ml
ocamlfind ocamlopt -w -a -package unix -linkpkg model.mli model.ml conv.ml blocks.ml $CHK registry.ml driver.ml -o driver
