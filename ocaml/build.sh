#!/bin/sh
# builds the driver from the extracted model: ocaml/gen/*.ml is produced by coq/Extract.v
# (Separate Extraction), compiled with -for-pack and packed as module Mdl; model.ml is a
# hand-written shim re-exporting the core modules as `Model`.
# Every chk_*.ml defines  let kinds : (string * (Blocks.block -> Blocks.verdict list)) list
set -e
cd "$(dirname "$0")"
rm -rf _build
mkdir -p _build/gen
cp gen/*.ml gen/*.mli _build/gen/
cd _build/gen
GEN=$(ocamlfind ocamldep -sort *.mli *.ml)
ocamlfind ocamlopt -w -a -for-pack Mdl -c $GEN
CMX=$(for f in $(ocamlfind ocamldep -sort *.ml); do echo ${f%.ml}.cmx; done)
ocamlfind ocamlopt -w -a -pack -o mdl.cmx $CMX
cp mdl.cmx mdl.cmi mdl.o ..
cd ..
cp ../model.ml ../conv.ml ../blocks.ml ../chk_*.ml ../driver.ml .
CHK=$(ocamlfind ocamldep -sort chk_*.ml)
{ printf 'let checkers = List.concat ['; for f in $CHK; do m=$(basename $f .ml); M=$(echo $m | cut -c1 | tr a-z A-Z)$(echo $m | cut -c2-); printf '%s.kinds; ' $M; done; echo ']'; } > registry.ml
ocamlfind ocamlopt -w -a -package unix -linkpkg mdl.cmx model.ml conv.ml blocks.ml $CHK registry.ml driver.ml -o driver
