(* C14: stream mode.
   (i)  The H4 event log of the real run must be a run of the extracted transition system
        (Mdl.StreamTS.valid_trace; DIFF trace-invalid otherwise) and the model's `printed` after the
        log must be the real stdout.
   (ii) ORACLE (independent of the transition system): stdout = the answers of the lock-step
        single-worker reference run, line by line, one per accepted input line. *)
open Blocks

let strip_prefix (p : string) (s : string) : string option =
  let lp = String.length p in
  if String.length s >= lp && String.sub s 0 lp = p then Some (String.sub s lp (String.length s - lp)) else None

(* "<kw> <i> <rest>" lines of the raw block, rest verbatim *)
let indexed (b : block) (kw : string) : string list =
  let acc = ref [] in
  List.iter (fun l ->
      match strip_prefix (kw ^ " ") l with
      | Some r ->
        (match String.index_opt r ' ' with
         | Some k -> acc := String.sub r (k + 1) (String.length r - k - 1) :: !acc
         | None -> acc := "" :: !acc)
      | None -> ()) b.raw;
  List.rev !acc

let rec take_while p = function x :: r when p x -> x :: take_while p r | _ -> []

let rec is_prefix a b = match a, b with
  | [], _ -> true
  | x :: a', y :: b' -> x = y && is_prefix a' b'
  | _ -> false

let sub_multiset (a : string list) (b : string list) : bool =
  let h = Hashtbl.create 64 in
  List.iter (fun x -> Hashtbl.replace h x (1 + (try Hashtbl.find h x with Not_found -> 0))) b;
  List.for_all (fun x ->
      match Hashtbl.find_opt h x with
      | Some k when k > 0 -> Hashtbl.replace h x (k - 1); true
      | _ -> false) a

let nat = Conv.nat_of_int

let pc_name (p : Mdl.StreamTS.mpc) = match p with
  | Mdl.StreamTS.MPrint -> "MPrint" | Mdl.StreamTS.MRecv -> "MRecv" | Mdl.StreamTS.MStdin -> "MStdin" | Mdl.StreamTS.MPush _ -> "MPush"
  | Mdl.StreamTS.MUnpark _ -> "MUnpark" | Mdl.StreamTS.MFlush -> "MFlush" | Mdl.StreamTS.DCheck -> "DCheck" | Mdl.StreamTS.DRecv -> "DRecv"
  | Mdl.StreamTS.DPrint -> "DPrint" | Mdl.StreamTS.MStop -> "MStop" | Mdl.StreamTS.MJoinU _ -> "MJoinU" | Mdl.StreamTS.MJoinW _ -> "MJoinW"
  | Mdl.StreamTS.MDone -> "MDone"

let check (b : block) : verdict list =
  let out = ref [] in
  let add v = out := v :: !out in
  let inputs = indexed b "input" in
  let refs = indexed b "ref" in
  let outs = indexed b "impl out" in
  let status = match impl b "status" with Some t -> String.concat " " t | None -> "?" in
  let jobs = match find b "jobs" with Some [j] -> int_of_string j | _ -> 1 in
  let accepted = take_while (fun l -> l <> "exit") inputs in
  let n = List.length accepted in
  bump_by "lines_accepted" n;
  (* the accepted-lines definition of the model agrees with the oracle's *)
  let model_acc = List.map Conv.ocaml_string (Mdl.StreamTS.before_exit (List.map Conv.coq_string inputs)) in
  if model_acc <> accepted then add (Diff ("before_exit", "Mdl.StreamTS.before_exit differs from the oracle's accepted lines"));
  let ref_status = match find b "ref_status" with Some t -> String.concat " " t | None -> "?" in
  (* the reference run is a run of the implementation too (one worker, stdin closed after the last answer) *)
  if ref_status = "timeout" then
    add (Viol ("stream:no-exit", Printf.sprintf "single worker, lock-step: the process did not terminate after end of input (%d of %d answers printed)" (List.length refs) n))
  else if ref_status <> "exit 0" then
    add (Viol ("stream:crash", "single worker, lock-step: the process ended with status " ^ ref_status));
  (* the library's own answers (handle_stream_msg on a fresh clone per line) are the primary
     reference: the binary's single-worker run is judged against them like any other run *)
  let expects = indexed b "expect" in
  let have_expect = List.length expects = n && n > 0 in
  if have_expect then begin
    bump "runs_judged_against_library_answers";
    if List.length refs < n && is_prefix refs expects then
      add (Viol ("stream:lost-answer", Printf.sprintf "single worker, lock-step: %d of %d accepted lines were answered" (List.length refs) n))
    else if refs <> expects then begin
      let rec fd i a r = match a, r with x :: a', y :: r' -> if x = y then fd (i + 1) a' r' else i | _ -> i in
      let i = fd 0 refs expects in
      add (Viol ("stream:wrong-answer", Printf.sprintf "single worker: output line %d is %S, the library answers %S to input line %d" i
                   (try List.nth refs i with _ -> "<none>") (try List.nth expects i with _ -> "<none>") i))
    end
  end;
  let refs = if have_expect then expects else refs in
  let ref_ok = List.length refs = n in
  if not ref_ok then
    add (Diff ("ref-incomplete", Printf.sprintf "the single-worker reference run gave %d answers for %d lines" (List.length refs) n))
  else begin
    (* the reference itself must be a function of the line *)
    let tbl : (string, string) Hashtbl.t = Hashtbl.create 64 in
    List.iter2 (fun l a ->
        match Hashtbl.find_opt tbl l with
        | Some a' when a' <> a ->
          add (Viol ("stream:answer-not-a-function",
                     Printf.sprintf "single worker: line %S answered %S and later %S" l a' a))
        | Some _ -> ()
        | None -> Hashtbl.add tbl l a) accepted refs;
    (* ---- (ii) oracle ---- *)
    let k = List.length outs in
    if status = "timeout" then
      add (Viol ("stream:no-exit", Printf.sprintf "the process did not terminate (%d of %d answers printed)" k n))
    else if status <> "exit 0" then
      add (Viol ("stream:crash", "the process ended with status " ^ status))
    else if outs = refs then ()
    else if k < n && is_prefix outs refs then
      add (Viol ("stream:lost-answer",
                 Printf.sprintf "%d of %d accepted lines were answered before the process exited (jobs=%d, %s)"
                   k n jobs (if List.mem "exit" inputs then "exit" else "end of input")))
    else if k > n && is_prefix refs outs then
      add (Viol ("stream:extra-output", Printf.sprintf "%d output lines for %d accepted lines" k n))
    else begin
      let rec first_diff i a r = match a, r with
        | x :: a', y :: r' -> if x = y then first_diff (i + 1) a' r' else i
        | _ -> i in
      let i = first_diff 0 outs refs in
      let got = (try List.nth outs i with _ -> "<none>") and want = (try List.nth refs i with _ -> "<none>") in
      if sub_multiset outs refs then
        add (Viol ("stream:order", Printf.sprintf "output line %d is %S, the answer to input line %d is %S" i got i want))
      else
        add (Viol ("stream:wrong-answer", Printf.sprintf "output line %d is %S, the single-worker answer is %S" i got want))
    end;
    (* ---- (i) the event log is a run of the model ---- *)
    let evs = find_all b "event" in
    if evs = [] then add (Diff ("trace-missing", "no H4 event log (hook H4 not applied to the repo?)"))
    else begin
      let input_arr = Array.of_list inputs in
      let bad = ref None in
      let flush_prints = ref 0 and after_loop = ref false and in_flush = ref false in
      let last_recv = ref (-1) and ooo = ref 0 in
      let conv (toks : string list) : Mdl.StreamTS.event option =
        let i s = int_of_string s in
        match toks with
        | "stdin" :: id :: _ ->
          let k = i id in
          if k < 0 || k >= Array.length input_arr then (bad := Some ("stdin id out of range: " ^ id); None)
          else begin
            let logged = String.concat " " (List.tl (List.tl toks)) in
            if logged <> String.concat " " (split_ws input_arr.(k)) then
              bad := Some (Printf.sprintf "stdin %d logged %S, input line is %S" k logged input_arr.(k));
            Some (Mdl.StreamTS.EMStdin (Conv.coq_string input_arr.(k)))
          end
        | ["exit"] -> after_loop := true; in_flush := true; Some Mdl.StreamTS.EMExit
        | ["eof"] -> after_loop := true; in_flush := true; Some Mdl.StreamTS.EMEof
        | ["loop_exit"] -> if not !after_loop then bad := Some "loop_exit without exit/eof"; None
        | ["push"; id] -> Some (Mdl.StreamTS.EMPush (nat (i id)))
        | ["pull"; w; id] -> Some (Mdl.StreamTS.EWPull (nat (i w), nat (i id)))
        | ["send"; w; id] -> Some (Mdl.StreamTS.EWSend (nat (i w), nat (i id)))
        | ["recv"; id] ->
          if i id < !last_recv then incr ooo; last_recv := max !last_recv (i id);
          Some (Mdl.StreamTS.EMRecv (nat (i id)))
        | ["drecv"; id] ->
          in_flush := false;
          if i id < !last_recv then incr ooo; last_recv := max !last_recv (i id);
          Some (Mdl.StreamTS.EMDrainRecv (nat (i id)))
        | ["print"; id] -> if !in_flush then incr flush_prints; Some (Mdl.StreamTS.EMPrint (nat (i id)))
        | ["stop"] -> in_flush := false; Some Mdl.StreamTS.EMStop
        | ["wstop"; w] -> Some (Mdl.StreamTS.EWStopSeen (nat (i w)))
        | ["done"] -> Some Mdl.StreamTS.EMFinish
        | _ -> bad := Some ("unknown event: " ^ String.concat " " toks); None
      in
      let events = List.filter_map (fun t -> try conv t with _ -> (bad := Some ("bad event: " ^ String.concat " " t); None)) evs in
      let ev_arr = Array.of_list (List.filter (fun t -> t <> ["loop_exit"]) evs) in
      (match !bad with
       | Some m -> add (Diff ("trace-invalid", m))
       | None ->
         let answer (l : Mdl.StreamTS.line) : Model.string =
           match Hashtbl.find_opt tbl (Conv.ocaml_string l) with
           | Some a -> Conv.coq_string a
           | None -> Conv.coq_string "<no reference answer>" in
         let s0 = Mdl.StreamTS.init (List.map Conv.coq_string inputs) (nat jobs) in
         let finish (which : string) (s : Mdl.StreamTS.state) =
           bump "traces_validated";
           bump "traces_validated_against_impl";
           bump ("traces_valid_" ^ which);
           bump_by "events_validated" (List.length events);
           bump_by "out_of_order_receipts" !ooo;
           bump_by "prints_in_flush" !flush_prints;
           if !ooo > 0 then bump "traces_with_reordering";
           let printed = List.map Conv.ocaml_string s.Mdl.StreamTS.printed in
           if printed <> outs then
             add (Diff ("printed", Printf.sprintf "after the log the model has printed %d lines, the process %d"
                          (List.length printed) (List.length outs)));
           if status = "exit 0" && s.Mdl.StreamTS.pc <> Mdl.StreamTS.MDone then
             add (Diff ("trace-incomplete", "the process exited but the log ends with the main thread at " ^ pc_name s.Mdl.StreamTS.pc))
         in
         (match Mdl.StreamTS.valid_trace answer true s0 events Model.O with
          | Model.Coq_inl s -> finish "repaired" s
          | Model.Coq_inr k1 ->
            (* a run of the unrepaired main thread that skipped the flush is a run of the v0 system *)
            (match Mdl.StreamTS.valid_trace answer false s0 events Model.O with
             | Model.Coq_inl s -> finish "v0_only" s
             | Model.Coq_inr k0 ->
               let k = max (Conv.int_of_nat k1) (Conv.int_of_nat k0) in
               let e = if k < Array.length ev_arr then String.concat " " ev_arr.(k) else "?" in
               add (Diff ("trace-invalid",
                          Printf.sprintf "event #%d (%s) is not enabled in the model (jobs=%d)" k e jobs)))))
    end
  end;
  if !out = [] then [Ok] else List.rev !out

let kinds = ["C14", check]
