(* C20: best configuration / top-k configurations.
   (1) model vs implementation: calc_best_config (value and configuration: the tie-breaking of
       the best-config pass is modelled exactly) and calc_top_k_configs (VALUE sequence: which of
       several equally good configurations the BinaryHeap pops first is not determined by the
       model; the configurations themselves are judged by the oracle).
   (2) oracle, independent of the algorithmic model: brute-force ranking of the truth table
       Model.modelsA by value, plus the VERIFIED checkers Mdl.Optimal.is_best / Mdl.Optimal.is_topk
       (Props/C20.v: is_topk_sound / is_topk_complete) evaluated on the implementation's answer.
       For circuits too wide for a truth table (the 70-feature And) a necessary-condition oracle:
       complete models containing A, distinct, sorted, correct values, size against the count
       (C01: root_count = MC), and no single-feature flip of a returned configuration that is an
       omitted model may be better than the last returned one. *)
open Blocks

let int_n b = match find b "n" with Some [n] -> int_of_string n | _ -> failwith "no n"

type query = { qi : string; k : int; vals : int list; a : int list }

let parse_query (toks : string list) : query =
  match toks with
  | qi :: "k" :: k :: "vals" :: rest ->
    let rec split acc = function
      | "A" :: a -> (List.rev acc, a)
      | x :: r -> split (x :: acc) r
      | [] -> (List.rev acc, [])
    in
    let vs, a = split [] rest in
    { qi; k = int_of_string k; vals = List.map int_of_string vs; a = List.map int_of_string a }
  | _ -> failwith "bad query line"

let impl_q (b : block) (key : string) (qi : string) : string list list =
  List.filter_map (function (q :: t) when q = qi -> Some t | _ -> None) (impl_all b key)

(* value of a configuration (list of literals), computed natively *)
let value (vals : int array) (c : int list) : int =
  List.fold_left (fun s l -> if l > 0 && l <= Array.length vals then s + vals.(l - 1) else s) 0 c

let rec take n l = if n <= 0 then [] else match l with [] -> [] | x :: r -> x :: take (n - 1) r
let rec sorted_desc = function a :: (b :: _ as r) -> a >= b && sorted_desc r | _ -> true
let rec has_dup = function [] -> false | x :: r -> List.mem x r || has_dup r
let str_ints l = String.concat " " (List.map string_of_int l)

let parse_val (s : string) : int option = int_of_string_opt s

let check (b : block) : verdict list =
  match impl b "panic" with
  | Some msg -> [Diff ("load", "loading panicked (C01's concern): " ^ String.concat " " msg)]
  | None ->
    let n = int_n b in
    let nn = Conv.nat_of_int n in
    let c = b.circuit in
    let out = ref [] in
    let add v = out := v :: !out in
    if not (Model.check_wf c nn) then add (Diff ("check_wf", "loaded vector rejected by check_wf"))
    else bump "wf_accepted";
    let small = n <= 13 in
    let queries = List.map parse_query (find_all b "query") in
    List.iter (fun q ->
        bump "queries";
        let tagq s = Printf.sprintf "q%s k=%d vals=[%s] A=[%s]: %s" q.qi q.k (str_ints q.vals) (str_ints q.a) s in
        let zvals = Conv.zlist_of_ints q.vals and za = Conv.zlist_of_ints q.a in
        let avals = Array.of_list q.vals in
        let canon_ints (cz : Model.z list) = Conv.ints_of_zlist (Model.canon_cfg nn cz) in
        (* ---------- implementation answers ---------- *)
        let impl_best =
          match impl_q b "bestpanic" q.qi, impl_q b "best" q.qi with
          | m :: _, _ -> `Panic (String.concat " " m)
          | [], ["none"] :: _ -> `None
          | [], ("some" :: v :: lits) :: _ -> `Some (parse_val v, v, List.map int_of_string lits)
          | _ -> `Missing
        in
        let impl_topk =
          match impl_q b "topkpanic" q.qi with
          | m :: _ -> `Panic (String.concat " " m)
          | [] ->
            let rows = impl_q b "topk" q.qi in
            let rows = List.map (function
                | _ :: v :: lits -> (parse_val v, v, List.map int_of_string lits)
                | _ -> failwith "bad topk line") rows in
            (match impl_q b "topkdone" q.qi with
             | [len] :: _ when int_of_string len = List.length rows -> `Rows rows
             | _ -> `Missing)
        in
        (* ---------- model ---------- *)
        let model_best = Mdl.Optimal.calc_best_config zvals za c in
        let model_topk = Mdl.Optimal.calc_top_k_configs Mdl.Optimal.pick_first zvals za (Conv.nat_of_int q.k) c in
        (match model_best, impl_best with
         | None, `None -> ()
         | Some (mc, mv), `Some (Some iv, _, ilits) ->
           if Conv.int_of_z mv <> iv then
             add (Diff ("best-value", tagq (Printf.sprintf "model %d impl %d" (Conv.int_of_z mv) iv)));
           if canon_ints mc <> ilits then
             add (Diff ("best-config", tagq (Printf.sprintf "model [%s] impl [%s]" (str_ints (canon_ints mc)) (str_ints ilits))))
         | _, `Panic _ -> ()  (* judged below *)
         | _ -> add (Diff ("best", tagq "model and implementation disagree on the existence of a best configuration")));
        (match model_topk, impl_topk with
         | Mdl.Optimal.Done ml, `Rows rows ->
           let mv = List.map (fun (_, v) -> string_of_int (Conv.int_of_z v)) ml in
           let iv = List.map (fun (_, v, _) -> v) rows in
           if mv <> iv then
             add (Diff ("topk-values", tagq (Printf.sprintf "value sequence: model [%s] impl [%s]"
                                               (String.concat " " mv) (String.concat " " iv))))
         | Mdl.Optimal.Panic, `Panic _ -> ()
         | Mdl.Optimal.Panic, _ -> add (Diff ("topk", tagq "the model panics, the implementation does not"))
         | _, `Panic _ -> ()  (* judged below *)
         | _ -> add (Diff ("topk", tagq "implementation answer missing")));
        (* ---------- oracle ---------- *)
        let viol sg msg = add (Viol (sg, tagq msg)) in
        if small then begin
          bump "oracle_truth_table";
          let mz = Model.modelsA c nn za in
          let ms = List.map Conv.ints_of_zlist mz in
          let mvals = List.map (value avals) ms in
          let ranked = List.sort (fun x y -> compare y x) mvals in
          (* best *)
          (match impl_best with
           | `Panic m -> viol "best:panic" ("calc_best_config panicked: " ^ m)
           | `Missing -> add (Diff ("best", tagq "no answer recorded"))
           | `None ->
             if ms <> [] then viol "best:unsat-mismatch" (Printf.sprintf "no configuration returned but %d models contain the assumptions" (List.length ms));
             if not (Mdl.Optimal.is_best zvals mz None) then (if ms = [] then add (Diff ("is_best", tagq "verified checker disagrees")))
           | `Some (v, vs, lits) ->
             let detail =
               if ms = [] then Some ("best:unsat-mismatch", "a configuration was returned although the assumptions are unsatisfiable")
               else if not (List.mem lits ms) then Some ("best:not-a-model", Printf.sprintf "[%s] is not a model containing the assumptions" (str_ints lits))
               else match v with
                 | None -> Some ("best:wrong-value", "reported value " ^ vs ^ " is not an integer")
                 | Some v ->
                   if v <> value avals lits then Some ("best:wrong-value", Printf.sprintf "reported value %d, the configuration is worth %d" v (value avals lits))
                   else if v < List.hd ranked then Some ("best:not-optimal", Printf.sprintf "value %d but a model of value %d exists" v (List.hd ranked))
                   else None
             in
             let verified = match v with
               | Some v -> Mdl.Optimal.is_best zvals mz (Some (Conv.zlist_of_ints lits, Conv.z_of_int v))
               | None -> false in
             (match detail, verified with
              | Some (sg, m), false -> viol sg m
              | None, true -> bump "is_best_accepted"
              | Some (sg, m), true -> add (Diff ("is_best", tagq ("hand-written oracle rejects (" ^ sg ^ ") but is_best accepts")))
              | None, false -> viol "best:rejected-by-is_best" "the verified checker rejects the answer"));
          (* top-k *)
          (match impl_topk with
           | `Panic m -> viol "topk:panic" ("calc_top_k_configs panicked: " ^ m)
           | `Missing -> ()
           | `Rows rows ->
             let want = min q.k (List.length ms) in
             let cfgs = List.map (fun (_, _, l) -> l) rows in
             let vals_ok = List.for_all (fun (v, _, l) -> v = Some (value avals l)) rows in
             let rvals = List.map (fun (_, _, l) -> value avals l) rows in
             let detail =
               if List.length rows <> want then
                 Some ("topk:wrong-size", Printf.sprintf "%d configurations returned, expected min(k=%d, count=%d) = %d" (List.length rows) q.k (List.length ms) want)
               else if List.exists (fun l -> not (List.mem l ms)) cfgs then
                 Some ("topk:not-a-model", "a returned configuration is not a model containing the assumptions")
               else if has_dup cfgs then Some ("topk:duplicate", "a configuration is returned twice")
               else if not vals_ok then Some ("topk:wrong-value", "a reported value is not the value of its configuration")
               else if not (sorted_desc rvals) then Some ("topk:not-sorted", Printf.sprintf "values [%s] are not non-increasing" (str_ints rvals))
               else if rvals <> take want ranked then
                 Some ("topk:omits-better", Printf.sprintf "returned values [%s], the best %d models have values [%s]" (str_ints rvals) want (str_ints (take want ranked)))
               else None
             in
             let verified =
               List.for_all (fun (v, _, _) -> v <> None) rows
               && Mdl.Optimal.is_topk zvals (Conv.nat_of_int q.k) mz
                    (List.map (fun (v, _, l) -> (Conv.zlist_of_ints l, Conv.z_of_int (match v with Some v -> v | None -> 0))) rows) in
             (match detail, verified with
              | Some (sg, m), false -> viol sg m
              | None, true -> bump "is_topk_accepted"
              | Some (sg, m), true -> add (Diff ("is_topk", tagq ("hand-written oracle rejects (" ^ sg ^ ") but is_topk accepts")))
              | None, false -> viol "topk:rejected-by-is_topk" "the verified checker rejects the answer");
             (* configurations are determined when all model values are pairwise distinct *)
             (match model_topk with
              | Mdl.Optimal.Done ml when not (has_dup mvals) ->
                bump "topk_configs_determined";
                if List.map (fun (cz, _) -> canon_ints cz) ml <> cfgs && detail = None then
                  add (Diff ("topk-configs", tagq "no ties, yet model and implementation return different configurations"))
              | _ -> ()))
        end else begin
          bump "oracle_wide";
          let za_mem l = List.mem l q.a in
          let is_model (l : int list) =
            List.length l = n && List.for_all (fun x -> x <> 0) l
            && List.for_all (fun a -> List.mem a l) q.a
            && Model.eval_root (Model.asg_of (Conv.zlist_of_ints l)) c in
          ignore za_mem;
          let rc = Conv.dec_of_z (Model.root_count c) in
          let rc_ge k = String.length rc > 18 || int_of_string rc >= k in
          (match impl_best with
           | `Panic m -> viol "best:panic" ("calc_best_config panicked: " ^ m)
           | `Some (v, _, lits) ->
             if not (is_model lits) then viol "best:not-a-model" "not a model containing the assumptions"
             else if v <> Some (value avals lits) then viol "best:wrong-value" "reported value is not the configuration's value"
             else begin
               let flips = List.mapi (fun i _ -> List.mapi (fun j x -> if i = j then -x else x) lits) lits in
               if List.exists (fun f -> is_model f && value avals f > value avals lits) flips then
                 viol "best:not-optimal" "flipping one feature gives a better model"
             end
           | `None -> if q.a = [] && rc_ge 1 then viol "best:unsat-mismatch" "no configuration although the circuit has models"
           | `Missing -> ());
          (match impl_topk with
           | `Panic m -> viol "topk:panic" ("calc_top_k_configs panicked: " ^ m)
           | `Missing -> ()
           | `Rows rows ->
             let cfgs = List.map (fun (_, _, l) -> l) rows in
             let rvals = List.map (fun (_, _, l) -> value avals l) rows in
             let best_exists = (match impl_best with `Some _ -> true | _ -> false) in
             if rows = [] && best_exists && q.k >= 1 then
               viol "topk:wrong-size" "no configuration returned although calc_best_config finds a model containing the assumptions"
             else if q.a = [] && rc_ge q.k && List.length rows <> q.k then
               viol "topk:wrong-size" (Printf.sprintf "%d configurations returned, expected min(k=%d, count=%s)" (List.length rows) q.k rc)
             else if List.length rows > q.k then viol "topk:wrong-size" "more than k configurations"
             else if List.exists (fun l -> not (is_model l)) cfgs then viol "topk:not-a-model" "a returned configuration is not a model containing the assumptions"
             else if has_dup cfgs then viol "topk:duplicate" "a configuration is returned twice"
             else if List.exists (fun (v, _, l) -> v <> Some (value avals l)) rows then viol "topk:wrong-value" "a reported value is wrong"
             else if not (sorted_desc rvals) then viol "topk:not-sorted" "values are not non-increasing"
             else if rows <> [] then begin
               let last = List.nth rvals (List.length rvals - 1) in
               let full = List.length rows = q.k in
               let bad = List.exists (fun lits ->
                   let flips = List.mapi (fun i _ -> List.mapi (fun j x -> if i = j then -x else x) lits) lits in
                   List.exists (fun f -> is_model f && not (List.mem f cfgs) && ((not full) || value avals f > last)) flips) cfgs in
               if bad then viol "topk:omits-better" "an omitted one-flip neighbour is a model that is better than the last returned (or the list is not full)"
             end)
        end) queries;
    if !out = [] then [Ok] else List.rev !out

let kinds = ["C20", check]
