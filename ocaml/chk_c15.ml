(* C15: parallel query file.
   ORACLE (independent of the transition-system model): the multi-thread bytes are the
   single-thread bytes, and these are one line per line of the query file, line i starting with the
   canonical text of query i.
     VIOL multiq:missing-line   number of output lines <> number of lines of the query file
     VIOL multiq:order          the right lines in another order
     VIOL multiq:bytes-differ   anything else that differs from the single-thread output
     VIOL multiq:panic / multiq:hang   the multi-thread run died although the single-thread run did not;
                                multiq:hang also when the single-thread run panics (terminates with a
                                message) and the multi-thread run blocks for ever (planted cases
                                `planted-panic <literal>`: the defect K13 repaired by
                                repo_patches/F10-multiquery-drop-sender.patch; the model of the code
                                before the repair is C15_worker_panic_blocks_refuted).  Single-thread
                                panics AND multi-thread panics = agreement (C15_outcome); a multi-thread
                                run that returns although the single-thread one panics is
                                multiq:bytes-differ
   CORRESPONDENCE with the extracted Coq model (Model/MultiQ.v, the repaired system drop_tx = true):
     DIFF parse            mq_parse_file (file bytes) <> parse_queries_file
     DIFF render-single    mq_render_single with the single-thread answers <> single-thread bytes
     DIFF trace-invalid    the event log of hook H4b is not a run of mq_step (mq_valid_event)
     DIFF model-output     output of the model after replaying the log (and the canonical completion
                           of the workers' exits, write, join) <> multi-thread bytes; planted cases:
                           the model (canonical completion and a pseudo-random schedule) does not end
                           in the main thread's panic in the recv loop (C15_worker_panic_propagates),
                           or the implementation panics with another message than
                           "All workers died unexpectedly."
   Runs without an event log (no hook, or j = 1 which takes the single-thread path) are compared
   with the model under a pseudo-random schedule instead (STAT traces_skipped_no_events). *)
open Blocks

(* the system the implementation is compared with: the repaired code (the main thread drops its
   own Sender: Model/MultiQ.v, Section variable drop_tx) *)
let drop_tx = true

let unescape (s : string) : string =
  let b = Buffer.create (String.length s) in
  let n = String.length s in
  let i = ref 0 in
  while !i < n do
    (if s.[!i] = '\\' && !i + 1 < n then begin
        (match s.[!i + 1] with
         | '\\' -> Buffer.add_char b '\\'; i := !i + 2
         | 'r' -> Buffer.add_char b '\r'; i := !i + 2
         | 't' -> Buffer.add_char b '\t'; i := !i + 2
         | 'x' when !i + 3 < n ->
           Buffer.add_char b (Char.chr (int_of_string ("0x" ^ String.sub s (!i + 2) 2))); i := !i + 4
         | c -> Buffer.add_char b c; i := !i + 2)
      end else begin Buffer.add_char b s.[!i]; incr i end)
  done;
  Buffer.contents b

let file_bytes (b : block) (name : string) : string option =
  match List.assoc_opt name b.files with
  | Some pieces -> Some (String.concat "\n" (List.map unescape pieces))
  | None -> None

let fnv64 (s : string) : string =
  let h = ref 0xcbf29ce484222325L in
  String.iter (fun c ->
      h := Int64.logxor !h (Int64.of_int (Char.code c));
      h := Int64.mul !h 0x00000100000001b3L) s;
  Printf.sprintf "%016Lx" !h

(* independent rendering of a query (spec side) *)
let canon_query (q : int list) : string = String.concat " " (List.map string_of_int q)

let split_lines_nl (s : string) : string list * bool =
  (* lines terminated by "\n"; bool = the text ends with "\n" (or is empty) *)
  let parts = String.split_on_char '\n' s in
  match List.rev parts with
  | "" :: r -> (List.rev r, true)
  | _ -> (parts, false)

let result_of_line (l : string) : string =
  match String.rindex_opt l ',' with
  | Some k -> String.sub l (k + 1) (String.length l - k - 1)
  | None -> l

let rcmp_of (op : string) : string -> string -> Model.comparison = fun a b ->
  let c =
    if op = "sat" then compare (a = "true") (b = "true")
    else
      (* BigInt order of two decimal numbers *)
      let neg s = String.length s > 0 && s.[0] = '-' in
      match neg a, neg b with
      | true, false -> -1
      | false, true -> 1
      | na, _ ->
        let c = compare (String.length a, a) (String.length b, b) in
        if na then - c else c
  in
  if c < 0 then Model.Lt else if c > 0 then Model.Gt else Model.Eq

type ev = Mdl.MultiQ.mq_event

let parse_event (l : string) : ev option =
  match split_ws l with
  | ["pull"; w; i] -> Some (Mdl.MultiQ.EPull (Conv.nat_of_int (int_of_string w), Conv.nat_of_int (int_of_string i)))
  | ["send"; w; i] -> Some (Mdl.MultiQ.ESend (Conv.nat_of_int (int_of_string w), Conv.nat_of_int (int_of_string i)))
  | ["recv"; i] -> Some (Mdl.MultiQ.ERecv (Conv.nat_of_int (int_of_string i)))
  | _ -> None

let show_event (e : ev) : string =
  let n = Conv.int_of_nat in
  match e with
  | Mdl.MultiQ.EPull (w, i) -> Printf.sprintf "pull(%d,%d)" (n w) (n i)
  | Mdl.MultiQ.EPullNone w -> Printf.sprintf "pull-none(%d)" (n w)
  | Mdl.MultiQ.ESend (w, i) -> Printf.sprintf "send(%d,%d)" (n w) (n i)
  | Mdl.MultiQ.ERecv i -> Printf.sprintf "recv(%d)" (n i)
  | Mdl.MultiQ.EDie (w, i) -> Printf.sprintf "die(%d,%d)" (n w) (n i)
  | Mdl.MultiQ.EWrite -> "write"
  | Mdl.MultiQ.EJoin -> "join"
  | Mdl.MultiQ.EClosed -> "closed"
  | Mdl.MultiQ.EJoinDead w -> Printf.sprintf "join-dead(%d)" (n w)

(* splitmix-like generator for the model-side schedules *)
let mk_rng (seed : int) =
  let st = ref (seed * 2654435761 + 12345) in
  fun (n : int) ->
    st := (!st * 2862933555777941757 + 3037000493) land max_int;
    ((!st lsr 17) land 0x3fffffff) mod n

(* all enabled events of a state, by inspection of the state; each is then passed through
   mq_valid_event, which decides *)
let enabled (s : string Mdl.MultiQ.mq_state) : ev list =
  let evs = ref [] in
  List.iteri (fun w st ->
      let wn = Conv.nat_of_int w in
      match st with
      | Mdl.MultiQ.WIdle ->
        (match s.Mdl.MultiQ.mq_queue with
         | (i, _) :: _ -> evs := Mdl.MultiQ.EPull (wn, i) :: !evs
         | [] -> evs := Mdl.MultiQ.EPullNone wn :: !evs)
      | Mdl.MultiQ.WBusy (i, _) -> evs := Mdl.MultiQ.ESend (wn, i) :: Mdl.MultiQ.EDie (wn, i) :: !evs
      | Mdl.MultiQ.WExited -> ()
      | Mdl.MultiQ.WDied (_, _) ->
        (match s.Mdl.MultiQ.mq_main with
         | Mdl.MultiQ.PWritten _ -> evs := Mdl.MultiQ.EJoinDead wn :: !evs
         | _ -> ())) s.Mdl.MultiQ.mq_workers;
  (match s.Mdl.MultiQ.mq_chan, s.Mdl.MultiQ.mq_main with
   | ((i, _), _) :: _, Mdl.MultiQ.PCollect (Model.S _) -> evs := Mdl.MultiQ.ERecv i :: !evs
   | [], Mdl.MultiQ.PCollect (Model.S _) -> evs := Mdl.MultiQ.EClosed :: !evs
   | _, Mdl.MultiQ.PCollect Model.O -> evs := Mdl.MultiQ.EWrite :: !evs
   | _, Mdl.MultiQ.PWritten _ -> evs := Mdl.MultiQ.EJoin :: !evs
   | _ -> ());
  !evs

(* a pseudo-random schedule of the model: at most n enabled actions from s *)
let random_schedule answer panics rcmp rshow (rnd : int -> int) (s : string Mdl.MultiQ.mq_state) (n : int)
  : string Mdl.MultiQ.mq_state =
  let rec go s n =
    if n = 0 then s else
      let valid = List.filter_map (fun e -> Mdl.MultiQ.mq_valid_event answer panics rcmp rshow drop_tx s e) (enabled s) in
      match valid with
      | [] -> s
      | _ -> go (List.nth valid (rnd (List.length valid))) (n - 1)
  in
  go s n

let contains (s : string) (sub : string) : bool =
  let n = String.length s and m = String.length sub in
  let rec go i = i + m <= n && (String.sub s i m = sub || go (i + 1)) in
  go 0

let check (b : block) : verdict list =
  let out = ref [] in
  let add v = out := v :: !out in
  bump_by "traces_validated" 0;
  let op = match find b "op" with Some [o] -> o | _ -> "count" in
  let content = match file_bytes b "queries" with Some c -> c | None -> failwith "no query file" in
  let model_parse = Mdl.MultiQ.mq_parse_file (Conv.coq_string content) in
  let impl_parsed = impl b "parsed" in
  let single = impl b "single" in
  let runs = find_all b "run" in
  let run_tag r = match r with tag :: _ -> tag | [] -> "?" in
  (match model_parse, impl_parsed with
   | None, Some ("panic" :: _) ->
     (* both reject the file: every entry point must panic, too *)
     bump "parse_panics_agreed";
     (match single with
      | Some ("panic" :: _) -> ()
      | _ -> add (Diff ("parse", "parser panics but the single-thread evaluation did not")));
     List.iter (fun r ->
         match r with
         | _ :: _ :: _ :: _ :: _ :: "panic" :: _ -> ()
         | _ -> add (Viol ("multiq:bytes-differ",
                           "run " ^ run_tag r ^ ": the single-thread evaluation panics on this file, the multi-thread one does not")))
       runs
   | None, _ -> add (Diff ("parse", "model rejects the query file (mq_parse_file = None), the implementation parsed it"))
   | Some _, Some ("panic" :: m) ->
     add (Diff ("parse", "model parses the query file, the implementation panics: " ^ String.concat " " m))
   | Some w, _ ->
     let nq = List.length w in
     bump_by "queries" nq;
     bump (if nq = 0 then "files_lines_0" else if nq <= 10 then "files_lines_1_10"
           else if nq <= 100 then "files_lines_11_100" else if nq <= 1000 then "files_lines_101_1000"
           else "files_lines_1001_5000");
     let w_int = List.map (fun (i, q) -> (Conv.int_of_nat i, Conv.ints_of_zlist q)) w in
     let w_arr = Array.of_list w_int in
     (* --- parser correspondence *)
     (match List.assoc_opt "parsed" b.files with
      | Some ls ->
        let impl_items = List.map (fun l -> match split_ws l with
            | i :: q -> (int_of_string i, List.map int_of_string q)
            | [] -> failwith "bad parsed line") ls in
        if impl_items <> w_int then
          add (Diff ("parse", Printf.sprintf "parse_queries_file gives %d items, the model %d (or their contents differ)"
                       (List.length impl_items) nq))
        else bump "parse_agreed"
      | None -> add (Diff ("parse", "no parsed block")));
     (* one work item per line of the file: the model's own line splitting against a direct count *)
     let file_line_count =
       let (ls, _) = split_lines_nl content in List.length ls in
     if file_line_count <> nq then
       add (Diff ("parse", Printf.sprintf "%d lines in the file, %d work items in the model" file_line_count nq));
     (match single with
      | Some ("panic" :: m) ->
        (match find b "planted-panic" with
         | Some [lit] ->
           (* the operation panics on the queries with this literal (known defect of another
              property); what C15 is about: do j = 1 and j > 1 then behave alike? *)
           bump "single_thread_panics";
           let lit = int_of_string lit in
           let panics (q : Model.z list) = List.mem lit (Conv.ints_of_zlist q) in
           let answer (_ : Model.z list) = "0" and rshow = Conv.coq_string and rcmp = rcmp_of op in
           let (_, p) = Mdl.MultiQ.mq_single answer panics rshow w in
           if not p then add (Diff ("model-output", "the model's single-thread loop does not panic"));
           List.iter (fun r ->
               match r with
               | tag :: j :: _ :: _ :: _ :: status :: rest ->
                 bump "runs";
                 bump "planted_runs";
                 let j = int_of_string j in
                 let where = Printf.sprintf "run %s j=%d" tag j in
                 (* the model: j = 1 takes the single-thread loop (panics, checked above); otherwise
                    every maximal run of the repaired system ends in the main thread's panic in the
                    recv loop with nothing written (C15_worker_panic_propagates): the canonical
                    completion and one pseudo-random schedule *)
                 if j <> 1 then begin
                   let init : string Mdl.MultiQ.mq_state = Mdl.MultiQ.mq_init w (Conv.nat_of_int j) in
                   let n_ev = 3 * nq + j + 8 in
                   let s1 = Mdl.MultiQ.mq_complete answer panics rcmp rshow drop_tx (Conv.nat_of_int n_ev) init in
                   let rnd = mk_rng (Hashtbl.hash (b.id, tag)) in
                   let s2 = random_schedule answer panics rcmp rshow rnd init n_ev in
                   List.iter (fun (what, (s' : string Mdl.MultiQ.mq_state)) ->
                       match s'.Mdl.MultiQ.mq_main with
                       | Mdl.MultiQ.PPanicked None -> bump "model_predicts_main_panic"
                       | _ -> add (Diff ("model-output", where ^ ": the model (" ^ what ^ ") does not end in the main thread's panic")))
                     ["canonical completion", s1; "pseudo-random schedule", s2]
                 end;
                 (match status with
                  | "hang" ->
                    add (Viol ("multiq:hang",
                               Printf.sprintf "%s: the single-thread evaluation panics (%s), the multi-thread one never returns \
                                               (the model of the repaired code panics with 'All workers died unexpectedly.')"
                                 where (String.concat " " m)))
                  | "panic" ->
                    let msg = String.concat " " rest in
                    if j <> 1 && not (contains msg "All workers died unexpectedly") then
                      add (Diff ("model-output", where ^ ": panics, but not with 'All workers died unexpectedly.': " ^ msg))
                    else bump "planted_panics_agreed"
                  | _ -> add (Viol ("multiq:bytes-differ",
                                    Printf.sprintf "%s returns although the single-thread evaluation panics" where)))
               | _ -> add (Diff ("driver", "bad run line"))) runs
         | _ ->
           (* an operation that panics on a well-formed query without being planted *)
           add (Diff ("single-panic", "single-thread evaluation panicked on a parsable file: " ^ String.concat " " m)))
      | Some ("hang" :: _) -> add (Diff ("single-hang", "single-thread evaluation did not return"))
      | Some ("ok" :: _) ->
        let sbytes = match file_bytes b "single" with Some s -> s | None -> failwith "no single output" in
        let shash = fnv64 sbytes in
        let (slines, s_nl) = split_lines_nl sbytes in
        (* --- ORACLE on the single-thread output: one line per query, in file order *)
        let single_ok = ref true in
        if List.length slines <> nq || not s_nl then begin
          single_ok := false;
          add (Viol ("multiq:missing-line",
                     Printf.sprintf "single-thread output has %d lines for %d queries" (List.length slines) nq))
        end else
          List.iteri (fun k l ->
              let (_, q) = w_arr.(k) in
              let pre = canon_query q ^ "," in
              if !single_ok && not (String.length l >= String.length pre && String.sub l 0 (String.length pre) = pre) then begin
                single_ok := false;
                add (Viol ("multiq:order", Printf.sprintf "single-thread line %d is %S, expected to start with %S" k l pre))
              end) slines;
        if !single_ok then begin
          (* --- the answer function: taken from the single-thread run *)
          let tbl : (string, string) Hashtbl.t = Hashtbl.create 1024 in
          let functional = ref true in
          List.iteri (fun k l ->
              let (_, q) = w_arr.(k) in
              let key = canon_query q and r = result_of_line l in
              match Hashtbl.find_opt tbl key with
              | Some r' when r' <> r ->
                if !functional then
                  add (Diff ("answer-not-a-function",
                             Printf.sprintf "query %S answered %s and %s within one single-thread run" key r' r));
                functional := false
              | Some _ -> bump "duplicate_queries"
              | None -> Hashtbl.add tbl key r) slines;
          let answer (q : Model.z list) : string =
            match Hashtbl.find_opt tbl (canon_query (Conv.ints_of_zlist q)) with
            | Some r -> r
            | None -> "?" in
          let rshow = Conv.coq_string in
          let rcmp = rcmp_of op in
          let panics (_ : Model.z list) = false in
          let model_single = Conv.ocaml_string (Mdl.MultiQ.mq_render_single answer rshow w) in
          if model_single <> sbytes then
            add (Diff ("render-single", "mq_render_single with the single-thread answers differs from the single-thread bytes"))
          else bump "single_renders_agreed";
          (* --- the runs *)
          List.iter (fun r ->
              match r with
              | tag :: j :: dseed :: maxus :: spin :: status :: rest ->
                bump "runs";
                let j = int_of_string j in
                bump (Printf.sprintf "runs_j%02d" j);
                if int_of_string maxus > 0 then bump "runs_with_delay";
                if int_of_string spin > 0 then bump "runs_with_spinners";
                let where = Printf.sprintf "run %s j=%d delay_seed=%s max_us=%s spinners=%s" tag j dseed maxus spin in
                (match status, rest with
                 | "hang", _ -> add (Viol ("multiq:hang", where ^ ": did not return"))
                 | "panic", m -> add (Viol ("multiq:panic", where ^ ": " ^ String.concat " " m))
                 | "ok", [len; hash; _nev] ->
                   let mbytes = file_bytes b ("multi-" ^ tag) in
                   (* ORACLE *)
                   let same =
                     match mbytes with
                     | Some m -> m = sbytes
                     | None -> hash = shash && int_of_string len = String.length sbytes in
                   if not same then begin
                     match mbytes with
                     | None -> add (Viol ("multiq:bytes-differ", where ^ ": hash of the output differs from the single-thread output"))
                     | Some m ->
                       let (mlines, m_nl) = split_lines_nl m in
                       if List.length mlines <> nq || not m_nl then
                         add (Viol ("multiq:missing-line",
                                    Printf.sprintf "%s: %d output lines for %d queries" where (List.length mlines) nq))
                       else if List.sort compare mlines = List.sort compare slines then begin
                         let k = ref 0 in
                         (try List.iter2 (fun a c -> if a <> c then raise Exit; incr k) mlines slines with Exit -> ());
                         add (Viol ("multiq:order",
                                    Printf.sprintf "%s: same lines in another order; first difference at line %d: %S, single-thread %S"
                                      where !k (List.nth mlines !k) (List.nth slines !k)))
                       end else begin
                         let k = ref 0 in
                         (try List.iter2 (fun a c -> if a <> c then raise Exit; incr k) mlines slines with Exit -> ());
                         add (Viol ("multiq:bytes-differ",
                                    Printf.sprintf "%s: first difference at line %d: %S, single-thread %S"
                                      where !k (List.nth mlines !k) (List.nth slines !k)))
                       end
                   end;
                   (* CORRESPONDENCE with the transition system *)
                   let jn = Conv.nat_of_int j in
                   let init : string Mdl.MultiQ.mq_state = Mdl.MultiQ.mq_init w jn in
                   let fuel = Conv.nat_of_int (3 * nq + j + 8) in
                   let finish (s : string Mdl.MultiQ.mq_state) (what : string) =
                     let s' = Mdl.MultiQ.mq_complete answer panics rcmp rshow drop_tx fuel s in
                     match s'.Mdl.MultiQ.mq_main with
                     | Mdl.MultiQ.PJoined o ->
                       let o = Conv.ocaml_string o in
                       let agrees = match mbytes with
                         | Some m -> m = o
                         | None -> fnv64 o = hash && String.length o = int_of_string len in
                       if not agrees then
                         add (Diff ("model-output", where ^ ": the model's output after " ^ what ^ " differs from the multi-thread bytes"))
                       else bump "model_outputs_agreed"
                     | _ -> add (Diff ("model-output", where ^ ": the model does not terminate after " ^ what))
                   in
                   (match List.assoc_opt ("events-" ^ tag) b.files with
                    | Some lines when j > 1 ->
                      let hdr_ok = (match lines with
                          | h :: _ -> split_ws h = ["begin"; string_of_int j; string_of_int nq]
                          | [] -> false) in
                      let complete = (match List.rev lines with "end" :: _ -> true | _ -> false) in
                      if not hdr_ok || not complete then
                        add (Diff ("trace-invalid", where ^ ": event log without matching begin/end lines"))
                      else begin
                        let evs = List.filter_map parse_event lines in
                        if List.length evs <> List.length lines - 2 then
                          add (Diff ("trace-invalid", where ^ ": unreadable event line"))
                        else begin
                          (* replay, remembering where it stops *)
                          let rec go s k = function
                            | [] -> Stdlib.Ok s
                            | e :: tl ->
                              (match Mdl.MultiQ.mq_valid_event answer panics rcmp rshow drop_tx s e with
                               | Some s' -> go s' (k + 1) tl
                               | None -> Stdlib.Error (k, e))
                          in
                          match go init 0 evs with
                          | Stdlib.Error (k, e) ->
                            add (Diff ("trace-invalid",
                                       Printf.sprintf "%s: event %d %s is not enabled in the model" where k (show_event e)))
                          | Stdlib.Ok s ->
                            bump "traces_validated";
                            bump_by "events_validated" (List.length evs);
                            (* out-of-order arrivals actually exercised *)
                            let arrival = List.map (fun ((i, _), _) -> Conv.int_of_nat i) s.Mdl.MultiQ.mq_results in
                            if arrival <> List.sort compare arrival then bump "traces_with_out_of_order_arrival";
                            (match s.Mdl.MultiQ.mq_main with
                             | Mdl.MultiQ.PCollect Model.O -> finish s "replaying the event log"
                             | _ -> add (Diff ("trace-invalid", where ^ ": the log ends before all results were received")))
                        end
                      end
                    | _ ->
                      bump "traces_skipped_no_events";
                      (* a pseudo-random schedule of the model *)
                      let rnd = mk_rng (Hashtbl.hash (b.id, tag)) in
                      let s = random_schedule answer panics rcmp rshow rnd init (3 * nq + j + 8) in
                      finish s "a pseudo-random schedule")
                 | _ -> add (Diff ("driver", "bad run line")))
              | _ -> add (Diff ("driver", "bad run line"))) runs
        end
      | _ -> add (Diff ("driver", "no single-thread outcome"))));
  if !out = [] then [Ok] else List.rev !out

let kinds = ["C15", check]
