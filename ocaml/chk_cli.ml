(* CLI glue: every subcommand's stdout must equal the library's answer rendered the same way. *)
open Blocks

let check (b : block) : verdict list =
  let out = ref [] in
  let cur = ref "" and cli = ref None in
  List.iter (fun l ->
      let pre p = String.length l >= String.length p && String.sub l 0 (String.length p) = p in
      let rest p = String.sub l (String.length p) (String.length l - String.length p) in
      if pre "cmd " then (cur := rest "cmd "; cli := None)
      else if pre "cli " || l = "cli" then cli := Some (if l = "cli" then "" else rest "cli ")
      else if pre "lib " || l = "lib" then begin
        let lib = if l = "lib" then "" else rest "lib " in
        bump "cli_commands_compared";
        let starts s p = String.length s >= String.length p && String.sub s 0 (String.length p) = p in
        match !cli with
        | Some c when starts c "EXIT Some(101)" && starts lib "PANIC" ->
          (* the binary dies of the same panic as the library call: the glue agrees; whether the
             panic is acceptable is decided by the property's own oracle on the library call *)
          bump "cli_both_panic"
        | Some c when c <> lib ->
          let name = List.hd (String.split_on_char ' ' !cur) in
          out := Viol ("cli:" ^ name ^ "-differs",
                       Printf.sprintf "[%s] the binary printed {%s}, the library answers {%s}" !cur
                         (if String.length c > 300 then String.sub c 0 300 else c)
                         (if String.length lib > 300 then String.sub lib 0 300 else lib)) :: !out
        | _ -> ()
      end) b.raw;
  match List.rev !out with [] -> [Ok] | l -> [List.hd l]

let kinds = ["CLI", check]
