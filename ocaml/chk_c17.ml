(* C17: concurrent enumeration.
   (i)  controlled runs: the recorded hook events must be a valid complete run of the extracted
        repaired protocol (Mdl.Cursor.valid_event / r_exec), with the cursor snapshots and the answers
        the implementation produced (DIFF trace-invalid / answer-differs otherwise);
   (ii) oracle, independent of the Coq model: answers of requests with the same key hand out no
        configuration a (k+1)-th time before every configuration was handed out k times; every
        answer is a contiguous piece of the sequential cycle of its key, of the requested size or
        cut at the end of the cycle; the answers are those of SOME sequential order.
   (iii) who shares a cursor (repair F21): mode clones - an instance and its clones are ONE cursor
        (all their answers together = one sequential run); mode independent - two separately loaded
        instances of one file are TWO (each run on its own = a sequential run from position 0). *)
open Blocks

let ios = int_of_string

type ans = Cfgs of string list | Other of string

let parse_ans (toks : string list) : ans =
  match toks with
  | "cfgs" :: l -> Cfgs l
  | l -> Other (String.concat " " l)

type keyinfo = { klits : int list; c : int; refl : string array; index : (string, int) Hashtbl.t }

(* ---------- oracle (plain OCaml, integers) ---------- *)

(* answer as (start position in the reference cycle, length), if it is a contiguous ascending
   piece of it *)
let slice_of (k : keyinfo) (cfgs : string list) : (int * int, string) result =
  match cfgs with
  | [] -> Stdlib.Error "empty answer"
  | first :: _ ->
    (match Hashtbl.find_opt k.index first with
     | None -> Stdlib.Error (Printf.sprintf "configuration %s is not among the %d configurations of the sequential cycle" first k.c)
     | Some p ->
       let rec go i = function
         | [] -> Stdlib.Ok (p, i - p)
         | x :: t ->
           if i >= k.c then Stdlib.Error (Printf.sprintf "answer runs over the end of the cycle (position %d)" i)
           else if k.refl.(i) <> x then
             Stdlib.Error (Printf.sprintf "answer is not a contiguous piece of the sequential order at position %d" i)
           else go (i + 1) t
       in
       go p cfgs)

(* is there an order of the requests (amount, (start,len)) of one key that, run sequentially from
   cursor 0, gives exactly these pages and ends at cursor [fin] (if given)? *)
let serialisable (c : int) (reqs : (int * (int * int)) list) (fin : int option) : bool =
  let arr = Array.of_list reqs in
  let n = Array.length arr in
  let used = Array.make n false in
  let rec go p left =
    if left = 0 then (match fin with None -> true | Some f -> f = p)
    else begin
      let ok = ref false in
      let tried = Hashtbl.create 4 in
      for i = 0 to n - 1 do
        if not !ok && not used.(i) then begin
          let (amount, (s, len)) = arr.(i) in
          if not (Hashtbl.mem tried (amount, s, len)) then begin
            Hashtbl.add tried (amount, s, len) ();
            let stop = min c (p + amount) in
            if s = p && len = stop - p then begin
              used.(i) <- true;
              if go (stop mod c) (left - 1) then ok := true;
              used.(i) <- false
            end
          end
        end
      done;
      !ok
    end
  in
  go 0 n

let check (b : block) : verdict list =
  let out = ref [] in
  (* at most 4 verdicts per signature and block; the rest is counted *)
  let seen : (string, int) Hashtbl.t = Hashtbl.create 8 in
  let add v =
    let sg = match v with Viol (s, _) -> "V" ^ s | Diff (s, _) -> "D" ^ s | Ok -> "ok" in
    let k = 1 + (try Hashtbl.find seen sg with Not_found -> 0) in
    Hashtbl.replace seen sg k;
    if k <= 4 then out := v :: !out
    else (match v with Viol (s, _) -> bump ("more_viol_" ^ s) | Diff (s, _) -> bump ("more_diff_" ^ s) | Ok -> ()) in
  let mode = match find b "mode" with Some [m] -> m | _ -> "?" in
  (* mode dupset: the requests spell the same assumption set with repeated literals / in another
     order; whatever the oracle finds there is "the cursor is keyed by the literal list" (finding
     K12, repaired by F19: all spellings must share ONE cursor) *)
  let add v = match v with
    | Viol (s, m) when mode = "dupset" -> add (Viol ("enum:duplicate-literal-key", s ^ ": " ^ m))
    | Diff ("foreign-key", m) when mode = "dupset" ->
      add (Viol ("enum:duplicate-literal-key", "second-cursor: " ^ m ^ " (a spelling of the set has a cursor entry of its own)"))
    (* mode clones: the requests went round-robin to an instance and two clones of it - the stream
       workers are such clones and must page through the model TOGETHER (C17 presupposes it; since
       the repair F21 the cursor is a field of the model behind an Arc that clone() shares) *)
    | Viol (s, m) when mode = "clones" ->
      add (Viol ("enum:clones-separate-cursors", s ^ ": " ^ m ^ " (requests distributed over an instance and its clones must be answered like a sequential run on ONE cursor)"))
    (* mode independent: run 0 / run 1 are the answers of two separately loaded instances of the
       same file, asked alternately - two models, two cursors (C16; before F21 one process-global
       cursor: finding K2, now a detector without a finding line) *)
    | Viol (s, m) when mode = "independent" ->
      add (Viol ("enumerate:cursor-shared-across-models", s ^ ": " ^ m ^ " (each of two independently loaded instances must page from position 0 through its own cycle, whatever the other is asked)"))
    | v -> add v in
  let hook = match find b "hook" with Some ["1"] -> true | _ -> false in
  if hook then bump "blocks_with_hook_H3" else bump "blocks_hook_H3_absent_stress_only";
  (* keys and reference cycles *)
  let keys =
    List.map (fun t -> match t with
        | i :: c :: lits -> (ios i, (ios c, List.map ios lits))
        | _ -> failwith "bad key line") (find_all b "key") in
  let refs = List.map (fun t -> match t with i :: r -> (ios i, parse_ans r) | _ -> failwith "bad ref line") (find_all b "ref") in
  let nkeys = List.length keys in
  let kinfo = Array.init nkeys (fun i ->
      let (c, klits) = List.assoc i keys in
      let refl = match List.assoc_opt i refs with Some (Cfgs l) -> Array.of_list l | _ -> [||] in
      let index = Hashtbl.create (2 * Array.length refl + 1) in
      Array.iteri (fun p x -> if not (Hashtbl.mem index x) then Hashtbl.add index x p) refl;
      if Array.length refl <> c || Hashtbl.length index <> c then
        add (Diff ("ref-cycle", Printf.sprintf
                     "key %d: the sequential enumeration of count(A)=%d configurations returned %d (%d distinct): precondition of this check (C06) not met"
                     i c (Array.length refl) (Hashtbl.length index)));
      { klits; c; refl; index }) in
  if !out <> [] then List.rev !out else begin
    let reqs = List.map (fun t -> match t with
        | i :: k :: a :: _ -> (ios i, (ios k, ios a))
        | _ -> failwith "bad req line") (find_all b "req") in
    let nreq = List.length reqs in
    let req i = List.assoc i reqs in
    (* the tie between a request's assumption list and its key: the extracted key function of the
       model (Model/Enumerate.v enum_key = dedup . sort_abs, F19) applied to the literals as passed
       must give the key the harness filed the request under (C17_key_is_set is about this function) *)
    List.iter (fun t -> match t with
        | i :: k :: _ :: lits ->
          let lits = List.map ios lits in
          let mk = Conv.ints_of_zlist (Model.enum_key (Conv.zlist_of_ints lits)) in
          bump "request_keys_checked_against_enum_key";
          if mk <> kinfo.(ios k).klits then
            add (Diff ("request-key", Printf.sprintf "request %s passes [%s]: the model's key is [%s], the case files it under key %s = [%s]"
                         i (String.concat " " (List.map string_of_int lits)) (String.concat " " (List.map string_of_int mk))
                         k (String.concat " " (List.map string_of_int kinfo.(ios k).klits))))
        | _ -> ()) (find_all b "req");
    (* the implementation's own sequential run in request order = the oracle's arithmetic *)
    let seqs = List.map (fun t -> match t with i :: r -> (ios i, parse_ans r) | _ -> failwith "bad seq line") (find_all b "seq") in
    let cur = Array.make nkeys 0 in
    List.iter (fun (i, a) ->
        let (k, amount) = req i in
        let ki = kinfo.(k) in
        let stop = min ki.c (cur.(k) + amount) in
        (match a with
         | Cfgs l when slice_of ki l = Stdlib.Ok (cur.(k), stop - cur.(k)) -> ()
         | _ -> add (Diff ("seq-page", Printf.sprintf "sequential reference run: request %d is not page [%d,%d) of key %d" i cur.(k) stop k)));
        cur.(k) <- stop mod ki.c) (List.sort compare seqs);
    (* runs *)
    let tbl_of kw = let h = Hashtbl.create 64 in
      List.iter (fun t -> match t with r :: rest -> Hashtbl.add h (ios r) rest | [] -> ()) (List.rev (find_all b kw)); h in
    let evs = tbl_of "ev" and anss = tbl_of "ans" and fins = tbl_of "fin" in
    let hung = List.map (fun t -> ios (List.hd t)) (find_all b "hung") in
    let runs = List.map (fun t -> ios (List.hd t)) (find_all b "run") in
    (match find b "explored" with
     | Some [n; "all"] -> bump "request_lists_all_interleavings"; bump_by "interleavings_enumerated" (ios n)
     | Some [n; "capped"] -> bump "request_lists_interleavings_capped"; bump_by "interleavings_enumerated" (ios n)
     | Some [n; "random"] -> bump_by "interleavings_random" (ios n)
     | Some [n; "free"] -> bump_by "stress_runs" (ios n)
     | Some [n; "sequential"] -> bump_by "duplicate_literal_runs" (ios n)
     | Some [n; "clones"] -> bump_by "clone_sharing_runs" (ios n)
     | Some [n; "independent"] -> bump_by "independent_instance_runs" (ios n)
     | _ -> ());
    (* model side: requests and counts for the extracted protocol *)
    let zkey k = List.map Conv.z_of_int kinfo.(k).klits in
    let mreqs = List.init nreq (fun i -> let (k, a) = req i in { Mdl.Cursor.rkey = zkey k; Mdl.Cursor.ramount = Conv.nat_of_int a }) in
    let cnt_tbl = List.init nkeys (fun k -> (zkey k, Conv.nat_of_int kinfo.(k).c)) in
    let cnt (key : Mdl.Cursor.key) : Model.nat = match List.assoc_opt key cnt_tbl with Some c -> c | None -> Model.O in
    let cur0 : Mdl.Cursor.cursor = fun _ -> Model.O in
    List.iter (fun rid ->
        bump "runs_checked";
        let tag = Printf.sprintf "run %d: " rid in
        if List.mem rid hung then add (Diff ("hang", tag ^ "the scheduler timed out waiting for a worker"));
        let answers = Array.make nreq (Other "missing") in
        List.iter (fun t -> match t with i :: r -> answers.(ios i) <- parse_ans r | _ -> ()) (Hashtbl.find_all anss rid);
        let fin = match Hashtbl.find_opt fins rid with
          | Some l ->
            let rec take n l = if n = 0 then [] else match l with x :: t -> ios x :: take (n - 1) t | [] -> [] in
            (match List.rev l with
             | f :: "foreign" :: _ when f <> "0" -> add (Diff ("foreign-key", tag ^ "cursor map contains keys of no request"))
             | _ -> ());
            Some (Array.of_list (take nkeys l))
          | None -> None in
        (* ---------- (ii) oracle ---------- *)
        let slices = Array.make nreq None in
        let viol = ref false in
        for i = 0 to nreq - 1 do
          let (k, amount) = req i in
          let ki = kinfo.(k) in
          match answers.(i) with
          | Other what ->
            viol := true;
            add (Viol ("enum:not-serialisable", Printf.sprintf "%srequest %d (key %d, amount %d) answered '%s' although count(A)=%d > 0"
                         tag i k amount what ki.c))
          | Cfgs l ->
            (match slice_of ki l with
             | Stdlib.Error e -> viol := true; add (Viol ("enum:concurrent-size", Printf.sprintf "%srequest %d (key %d, amount %d): %s" tag i k amount e))
             | Stdlib.Ok (s, len) ->
               if not (len <= amount && (len = amount || s + len = ki.c)) then begin
                 viol := true;
                 add (Viol ("enum:concurrent-size", Printf.sprintf
                              "%srequest %d (key %d) returned %d configurations from position %d; requested %d, %d remained in the cycle of %d"
                              tag i k len s amount (ki.c - s) ki.c))
               end;
               slices.(i) <- Some (s, len))
        done;
        for k = 0 to nkeys - 1 do
          let ki = kinfo.(k) in
          let mine = List.filter (fun i -> fst (req i) = k) (List.init nreq (fun i -> i)) in
          let occ = Array.make ki.c 0 in
          List.iter (fun i -> match slices.(i) with
              | Some (s, len) -> for p = s to s + len - 1 do occ.(p) <- occ.(p) + 1 done
              | None -> ()) mine;
          (* every run starts from cursor 0: after T configurations of this key each one must have
             been returned once per completed cycle, plus once more iff it lies in the started one *)
          let total = Array.fold_left (+) 0 occ in
          let expected p = total / ki.c + (if p < total mod ki.c then 1 else 0) in
          let worst = ref (-1) in
          Array.iteri (fun p v -> if v > expected p && (!worst < 0 || v - expected p > occ.(!worst) - expected !worst) then worst := p) occ;
          if mine <> [] && !worst >= 0 then begin
            viol := true;
            let p = !worst in
            add (Viol ("enum:concurrent-duplicate", Printf.sprintf
                         "%skey %d: configuration %s (position %d of count(A)=%d) was returned %d times among the %d configurations handed out; a sequential client sees it %d times"
                         tag k ki.refl.(p) p ki.c occ.(p) total (expected p)))
          end;
          if mine <> [] && List.for_all (fun i -> slices.(i) <> None) mine then begin
            let rs = List.map (fun i -> (snd (req i), (match slices.(i) with Some s -> s | None -> (0, 0)))) mine in
            let f = match fin with Some a when Array.length a > k -> Some a.(k) | _ -> None in
            if not (serialisable ki.c rs f) then begin
              viol := true;
              add (Viol ("enum:not-serialisable", Printf.sprintf
                           "%skey %d: the answers %s%s are not those of any sequential order of the requests"
                           tag k
                           (String.concat " " (List.map (fun (a, (s, l)) -> Printf.sprintf "amount=%d:[%d,%d)" a s (s + l)) rs))
                           (match f with Some f -> Printf.sprintf " with final cursor %d" f | None -> "")))
            end else bump "serial_order_found"
          end
        done;
        ignore !viol;
        (* ---------- (i) trace validation against the extracted repaired protocol ---------- *)
        if mode = "controlled" then begin
          let st = ref (Mdl.Cursor.r_init cur0 mreqs) in
          let bad = ref None in
          let fail m = if !bad = None then bad := Some m in
          let model_cur () = Array.init nkeys (fun k -> Conv.int_of_nat ((!st).Mdl.Cursor.r_cur (zkey k))) in
          let show a = String.concat "," (Array.to_list (Array.map string_of_int a)) in
          let snap l = let rec take n l = if n = 0 then [] else match l with x :: t -> ios x :: take (n - 1) t | [] -> [] in
            Array.of_list (take nkeys l) in
          let pending = Hashtbl.create 8 in
          let order = ref [] in
          let step what e =
            if Mdl.Cursor.valid_event cnt mreqs !st e then
              (match Mdl.Cursor.r_exec cnt mreqs !st e with Some s -> st := s | None -> fail "r_exec")
            else fail (Printf.sprintf "event '%s' is not enabled in the repaired protocol" what) in
          List.iter (fun t ->
              if !bad = None then
                match t with
                | "lock" :: r :: _w :: rest ->
                  let r = ios r in
                  if Hashtbl.mem pending r then fail (Printf.sprintf "request %d acquires the cursor lock inside its critical section" r);
                  if snap rest <> model_cur () then
                    fail (Printf.sprintf "cursor before the critical section of request %d: implementation %s, model %s" r (show (snap rest)) (show (model_cur ())));
                  Hashtbl.replace pending r ()
                | "unlock" :: r :: _w :: rest ->
                  let r = ios r in
                  if not (Hashtbl.mem pending r) then fail (Printf.sprintf "request %d releases a lock it did not take" r);
                  Hashtbl.remove pending r;
                  step (Printf.sprintf "reserve %d" r) (Mdl.Cursor.EReserve (Conv.nat_of_int r));
                  order := r :: !order;
                  if !bad = None && snap rest <> model_cur () then
                    fail (Printf.sprintf "cursor after the critical section of request %d: implementation %s, model (reserve) %s" r (show (snap rest)) (show (model_cur ())))
                | "computed" :: r :: _ ->
                  let r = ios r in
                  step (Printf.sprintf "compute %d" r) (Mdl.Cursor.ECompute (Conv.nat_of_int r))
                | what :: _ -> fail ("unknown scheduling point " ^ what)
                | [] -> ()) (Hashtbl.find_all evs rid);
          if !bad = None && not (Mdl.Cursor.r_complete !st) then fail "the recorded run is not a complete run (some request never reserved or never computed)";
          (match !bad with
           | Some m -> add (Diff ("trace-invalid", tag ^ m))
           | None ->
             bump "traces_validated";
             (* answers of the model (indices) against the implementation's *)
             let mans = Mdl.Cursor.r_answers !st in
             List.iteri (fun i (pg : Mdl.Cursor.answer) ->
                 let (k, _) = req i in
                 let want = List.map (fun ix -> let p = Conv.int_of_nat ix in if p < kinfo.(k).c then kinfo.(k).refl.(p) else "?") pg in
                 match answers.(i) with
                 | Cfgs l when l = want -> ()
                 | _ -> add (Diff ("answer-differs", Printf.sprintf "%srequest %d: the model's page has %d configurations starting at %s"
                                     tag i (List.length want) (match want with x :: _ -> x | [] -> "-")))) mans;
             (match fin with
              | Some f when f <> model_cur () -> add (Diff ("final-cursor", Printf.sprintf "%simplementation %s, model %s" tag (show f) (show (model_cur ()))))
              | _ -> ());
             (* the instance of C17_serialisable: sequential run in reserve order *)
             let ord = List.rev !order in
             let sel = List.map (fun i -> List.nth mreqs i) ord in
             let seq_ans = Mdl.Cursor.seq_run cnt cur0 sel in
             let conc = List.map (fun i -> List.nth mans i) ord in
             if seq_ans <> conc then add (Diff ("theorem-instance", tag ^ "seq_run in reserve order differs from the run's answers"))
             else bump "theorem_instances_confirmed")
        end) runs;
    if !out = [] then [Ok] else List.rev !out
  end

let kinds = ["C17", check]
