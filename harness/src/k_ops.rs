//! C02/C03/C04/C05 (and the scratch-state part of C16): sequences of library requests on one
//! long-lived instance; every answer and the Clean flag (all markers false, md empty) after every
//! request are recorded.
use crate::common::*;
use crate::k_c01::{make_input_class, sources, write_models, Input};
use crate::rng::Rng;
use ddnnife::Ddnnf;
use std::fmt::Write as _;
use std::io::Write;

pub const KINDS: &[&str] = &["c02", "c03", "c04", "c05", "c16ops", "corpus"];

#[derive(Clone, Debug)]
pub enum Op {
    Count(Vec<i32>),
    Sat(Vec<i32>),
    SatInc(Vec<Vec<i32>>),
    Core(Vec<i32>),
    Cand(Vec<i32>, i32),
    Table,
    Marked(Vec<i32>),
    /// metamorphic law count(A) = count(A,x) + count(A,-x) (no truth table needed)
    Law(Vec<i32>, i32),
    /// incremental SAT with one mark vector and changing (sub-)roots; None = the real root
    SatSub(Vec<(Vec<i32>, Option<usize>)>),
}

pub fn all_partial(n: u32) -> Vec<Vec<i32>> {
    // all 3^n consistent partial assignments
    let mut out = vec![vec![]];
    for v in 1..=n as i32 {
        let mut next = Vec::new();
        for a in &out {
            next.push(a.clone());
            let mut p = a.clone();
            p.push(v);
            next.push(p);
            let mut q = a.clone();
            q.push(-v);
            next.push(q);
        }
        out = next;
    }
    out
}

pub fn random_list(rng: &mut Rng, n: u32, len: usize, consistent: bool) -> Vec<i32> {
    let mut v: Vec<i32> = Vec::new();
    let mut tries = 0;
    while v.len() < len && tries < 10 * len + 10 {
        tries += 1;
        let x = 1 + rng.below(n as u64) as i32;
        let l = if rng.coin() { x } else { -x };
        if consistent && v.contains(&-l) {
            continue;
        }
        v.push(l);
    }
    v
}

/// assumption lists whose lengths straddle the strategy boundaries 0 | 1 | 2..=20 | >20
pub fn boundary_lists(rng: &mut Rng, n: u32, per: usize) -> Vec<Vec<i32>> {
    let mut out = Vec::new();
    for &len in &[0usize, 1, 2, 3, 19, 20, 21, 22, 40] {
        for _ in 0..per {
            // mostly consistent (duplicates allowed), sometimes contradictory
            let consistent = !rng.chance(1, 4);
            out.push(random_list(rng, n, len, consistent));
        }
    }
    out
}

pub fn run_op(d: &mut Ddnnf, op: &Op, s: &mut String) {
    match op {
        Op::Count(a) => {
            writeln!(s, "op count {}", join(a)).unwrap();
            match guarded(|| d.execute_query(a)) {
                Ok(r) => writeln!(s, "r {}", r).unwrap(),
                Err(e) => writeln!(s, "panic {}", e).unwrap(),
            }
        }
        Op::Sat(a) => {
            writeln!(s, "op sat {}", join(a)).unwrap();
            match guarded(|| d.sat(a)) {
                Ok(r) => writeln!(s, "r {}", r as u8).unwrap(),
                Err(e) => writeln!(s, "panic {}", e).unwrap(),
            }
        }
        Op::SatInc(steps) => {
            let txt: Vec<String> = steps.iter().map(|a| join(a)).collect();
            writeln!(s, "op satinc {}", txt.join(" ; ")).unwrap();
            let res = guarded(|| {
                let mut mark = ddnnife::ddnnf::anomalies::sat::new_sat_mark_state(d.nodes.len());
                let mut out = Vec::new();
                for a in steps {
                    out.push(d.sat_propagate(a, &mut mark, None) as u8);
                }
                out
            });
            match res {
                Ok(r) => writeln!(s, "r {}", join(&r)).unwrap(),
                Err(e) => writeln!(s, "panic {}", e).unwrap(),
            }
        }
        Op::Core(a) => {
            writeln!(s, "op core {}", join(a)).unwrap();
            match guarded(|| d.core_dead_with_assumptions(a)) {
                Ok(mut r) => {
                    if a.is_empty() {
                        r.sort(); // HashSet iteration order
                    }
                    writeln!(s, "r {}", join(&r)).unwrap()
                }
                Err(e) => writeln!(s, "panic {}", e).unwrap(),
            }
        }
        Op::Cand(a, x) => {
            writeln!(s, "op cand {} | {}", join(a), x).unwrap();
            let msg = if a.is_empty() {
                format!("core v {}", x)
            } else {
                format!("core a {} v {}", join(a), x)
            };
            match guarded(|| d.handle_stream_msg(&msg)) {
                Ok(r) => writeln!(s, "r {}", r).unwrap(),
                Err(e) => writeln!(s, "panic {}", e).unwrap(),
            }
        }
        Op::Table => {
            writeln!(s, "op table").unwrap();
            match guarded(|| {
                d.card_of_each_feature()
                    .map(|(v, c, r)| format!("{}:{}:{:.10e}", v, c, r))
                    .collect::<Vec<String>>()
            }) {
                Ok(r) => writeln!(s, "r {}", r.join(" ")).unwrap(),
                Err(e) => writeln!(s, "panic {}", e).unwrap(),
            }
        }
        Op::SatSub(steps) => {
            let txt: Vec<String> = steps
                .iter()
                .map(|(a, r)| format!("{} @ {}", join(a), r.map(|x| x.to_string()).unwrap_or("root".into())))
                .collect();
            writeln!(s, "op satsub {}", txt.join(" ; ")).unwrap();
            let res = guarded(|| {
                let mut mark = ddnnife::ddnnf::anomalies::sat::new_sat_mark_state(d.nodes.len());
                let mut out = Vec::new();
                let mut fresh = Vec::new();
                let mut acc: Vec<i32> = Vec::new();
                for (a, r) in steps {
                    out.push(d.sat_propagate(a, &mut mark, *r) as u8);
                    acc.extend(a.iter().copied());
                    let mut m2 = ddnnife::ddnnf::anomalies::sat::new_sat_mark_state(d.nodes.len());
                    fresh.push(d.sat_propagate(&acc, &mut m2, *r) as u8);
                }
                (out, fresh)
            });
            match res {
                Ok((r, f)) => {
                    writeln!(s, "r {}", join(&r)).unwrap();
                    writeln!(s, "fresh {}", join(&f)).unwrap();
                }
                Err(e) => writeln!(s, "panic {}", e).unwrap(),
            }
        }
        Op::Law(a, x) => {
            writeln!(s, "op law {} | {}", join(a), x).unwrap();
            let mut ax = a.clone();
            ax.push(*x);
            let mut anx = a.clone();
            anx.push(-*x);
            match guarded(|| (d.execute_query(a), d.execute_query(&ax), d.execute_query(&anx), d.sat(a))) {
                Ok((c0, c1, c2, sat)) => writeln!(s, "r {} {} {} {}", c0, c1, c2, sat as u8).unwrap(),
                Err(e) => writeln!(s, "panic {}", e).unwrap(),
            }
        }
        Op::Marked(a) => {
            writeln!(s, "op marked {}", join(a)).unwrap();
            match guarded(|| d.get_marked_nodes_clone(a)) {
                Ok(r) => writeln!(s, "r {}", join(&r)).unwrap(),
                Err(e) => writeln!(s, "panic {}", e).unwrap(),
            }
        }
    }
    let clean = d.verif_markers().iter().all(|m| !m) && d.md.is_empty();
    writeln!(s, "clean {}", clean as u8).unwrap();
}

fn ops_for(kind: &str, inp: &Input, rng: &mut Rng, quick: bool) -> Vec<Op> {
    let n = inp.n;
    let mut ops = Vec::new();
    let exh = if quick { 4 } else { 6 };
    match kind {
        "c02" => {
            if n <= exh {
                let mut all = all_partial(n);
                rng.shuffle(&mut all);
                for a in all {
                    let mut a = a;
                    rng.shuffle(&mut a);
                    ops.push(Op::Count(a));
                }
            }
            for a in boundary_lists(rng, n, if quick { 2 } else { 6 }) {
                ops.push(Op::Count(a));
            }
            // histories: the marking of a query is inspected (as the CLI's `count` does) between counts
            for _ in 0..(if quick { 4 } else { 16 }) {
                let len = 1 + rng.below(3) as usize;
                ops.push(Op::Marked(random_list(rng, n, len, true)));
                let len = rng.below(4) as usize;
                let c = rng.chance(4, 5);
                ops.push(Op::Count(random_list(rng, n, len, c)));
            }
        }
        "c03" => {
            if n <= exh {
                let mut all = all_partial(n);
                rng.shuffle(&mut all);
                for a in all {
                    ops.push(Op::Sat(a));
                }
            }
            for a in boundary_lists(rng, n, 2) {
                ops.push(Op::Sat(a));
            }
            // incremental chains sharing one mark vector
            for _ in 0..(if quick { 6 } else { 30 }) {
                let k = 1 + rng.below(4) as usize;
                let steps: Vec<Vec<i32>> = (0..k)
                    .map(|_| {
                        let len = rng.below(3) as usize;
                        { let c = rng.chance(3, 4); random_list(rng, n, len, c) }
                    })
                    .collect();
                ops.push(Op::SatInc(steps));
            }
            // chains whose (sub-)root changes between calls, as the t-wise sampler uses them
            for _ in 0..(if quick { 6 } else { 30 }) {
                let k = 2 + rng.below(3) as usize;
                let steps: Vec<(Vec<i32>, Option<usize>)> = (0..k)
                    .map(|i| {
                        let len = 1 + rng.below(2) as usize;
                        let a = random_list(rng, n, len, true);
                        let root = if i + 1 == k || rng.chance(1, 3) { None } else { Some(usize::MAX) };
                        (a, root)
                    })
                    .collect();
                ops.push(Op::SatSub(steps));
            }
        }
        "c04" => {
            ops.push(Op::Table);
            ops.push(Op::Count(random_list(rng, n, 2, true)));
            ops.push(Op::Table);
        }
        "c05" => {
            ops.push(Op::Core(vec![]));
            let lists: Vec<Vec<i32>> = if n <= 5 {
                all_partial(n).into_iter().filter(|a| a.len() <= 3).collect()
            } else {
                (0..40).map(|_| { let len = 1 + rng.below(3) as usize; random_list(rng, n, len, true) }).collect()
            };
            let cap = if quick { 40 } else { 400 };
            let mut lists = lists;
            rng.shuffle(&mut lists);
            for a in lists.into_iter().take(cap) {
                ops.push(Op::Core(a.clone()));
                let x = 1 + rng.below(n as u64) as i32;
                ops.push(Op::Cand(a.clone(), if rng.coin() { x } else { -x }));
            }
            // contradictory assumptions: both polarities of everything
            if n >= 1 {
                ops.push(Op::Core(vec![1, -1]));
            }
        }
        _ => {
            // c16ops: a random interleaving of all request kinds
            let m = if quick { 30 } else { 120 };
            for _ in 0..m {
                let len = *rng.pick(&[0usize, 1, 1, 2, 3, 5, 21, 25]);
                let cons = rng.chance(4, 5);
                let a = random_list(rng, n, len, cons);
                ops.push(match rng.below(7) {
                    0 => Op::Count(a),
                    1 => Op::Sat(a),
                    2 => Op::Core(a.into_iter().take(2).collect()),
                    3 => Op::Table,
                    4 => Op::Marked(a),
                    5 => Op::SatInc(vec![a.clone(), random_list(rng, n, 1, true)]),
                    _ => Op::Count(a),
                });
            }
        }
    }
    ops
}

/// repository corpus (no truth table): model = implementation on every request + metamorphic laws
fn run_corpus(ctx: &Ctx, out: &mut dyn Write) {
    let mut rng = Rng::new(ctx.seed ^ 0x5eed_c0);
    let quick = ctx.tier != "thorough";
    let base = "/repo/ddnnife/tests/data";
    let mut files: Vec<(String, Option<u32>)> = vec![
        (format!("{}/small_ex_c2d.nnf", base), None),
        (format!("{}/small_ex_d4.nnf", base), Some(4)),
        (format!("{}/sandwich.nnf", base), None),
        (format!("{}/VP9_d4.nnf", base), Some(42)),
        ("/repo/example_input/X264_c2d.nnf".to_string(), None),
    ];
    if !quick {
        files.push(("/repo/example_input/axTLS_d4_684.nnf".to_string(), Some(684)));
        files.push((format!("{}/auto1_d4.nnf", base), Some(2513)));
        files.push((format!("{}/auto1_c2d.nnf", base), None));
        files.push(("/repo/example_input/busybox-1.18.0_c2d.nnf".to_string(), None));
        files.push(("/repo/example_input/aim711_d4_1277.nnf".to_string(), Some(1277)));
    }
    for (k, (path, n)) in files.iter().enumerate() {
        let text = match std::fs::read_to_string(path) {
            Ok(t) => t,
            Err(_) => continue,
        };
        let lines: Vec<String> = text.lines().map(|l| l.to_string()).collect();
        let mut s = String::new();
        writeln!(s, "case corpus-{} C02", k).unwrap();
        writeln!(s, "info corpus file {}", path).unwrap();
        match load(&lines, *n) {
            Err(e) => {
                writeln!(s, "n 0").unwrap();
                writeln!(s, "impl panic {}", e).unwrap()
            }
            Ok(mut d) => {
                let nv = d.number_of_variables;
                writeln!(s, "n {}", nv).unwrap();
                s.push_str(&dump_circuit(&d));
                let mut core: Vec<i32> = d.core.iter().copied().collect();
                core.sort();
                writeln!(s, "impl core {}", join(&core)).unwrap();
                let big = d.nodes.len() > 3000;
                let reps = if big { 6 } else { 40 };
                for _ in 0..reps {
                    let len = *rng.pick(&[0usize, 1, 2, 3, 5, 19, 20, 21, 30]);
                    let a = random_list(&mut rng, nv, len, true);
                    let x = 1 + rng.below(nv as u64) as i32;
                    run_op(&mut d, &Op::Law(a.clone(), x), &mut s);
                    // permutation / duplication / padding of A past 20 literals
                    let mut p = a.clone();
                    rng.shuffle(&mut p);
                    while p.len() < 22 && !a.is_empty() {
                        let l = *rng.pick(&a);
                        p.push(l);
                    }
                    run_op(&mut d, &Op::Count(p), &mut s);
                    run_op(&mut d, &Op::Count(a), &mut s);
                }
                if !big {
                    run_op(&mut d, &Op::Table, &mut s);
                }
            }
        }
        writeln!(s, "end").unwrap();
        out.write_all(s.as_bytes()).unwrap();
    }
}

/// C04 on models whose count exceeds f64::MAX (> 1024 free features): the expected table is a
/// closed form (small formula x 2^free), computed with exact integers and rationals here
fn huge_count_tables(ctx: &Ctx, out: &mut dyn Write) {
    use crate::gen::*;
    use num::{BigInt, BigRational, ToPrimitive};
    let mut rng = Rng::new(ctx.seed ^ 0x5eed_04b1);
    let cases = if ctx.tier == "thorough" { 6 } else { 2 };
    for k in 0..cases {
        let nv = 2 + rng.below(3) as u32;
        let mut small = Vec::new();
        let mut ms = Vec::new();
        for _ in 0..50 {
            let m = 1 + rng.below(nv as u64) as usize;
            small = random_cnf(&mut rng, nv, m, 3);
            ms = models(&small, nv);
            if !ms.is_empty() {
                break;
            }
        }
        if ms.is_empty() {
            continue;
        }
        let n = 1030 + rng.below(900) as u32;
        let opts = Opts::random(&mut rng, nv);
        let dag = match compile(&small, &opts) {
            Some(d) => d,
            None => continue,
        };
        let lines = emit_d4(&dag, &opts, &mut rng);
        let free = (n - nv) as usize;
        let total = BigInt::from(ms.len()) << free;
        let mut s = String::new();
        writeln!(s, "case c04-huge-{} C04", k).unwrap();
        writeln!(s, "info small formula over {} features + {} free features (count > f64::MAX)", nv, free).unwrap();
        writeln!(s, "n {}", n).unwrap();
        s.push_str(&file_block("d4", &lines));
        match load(&lines, Some(n)) {
            Err(e) => writeln!(s, "impl panic {}", e).unwrap(),
            Ok(mut d) => {
                writeln!(s, "bigcircuit {}", d.nodes.len()).unwrap();
                let exp: Vec<String> = (1..=n)
                    .map(|v| {
                        let card = if v <= nv {
                            BigInt::from(ms.iter().filter(|&&m| (m >> (v - 1)) & 1 == 1).count()) << free
                        } else {
                            total.clone() >> 1
                        };
                        let ratio = BigRational::new(card.clone(), total.clone()).to_f64().unwrap();
                        format!("{}:{}:{:.10e}", v, card, ratio)
                    })
                    .collect();
                writeln!(s, "op tablex").unwrap();
                match guarded(|| {
                    d.card_of_each_feature()
                        .map(|(v, c, r)| format!("{}:{}:{:.10e}", v, c, r))
                        .collect::<Vec<String>>()
                }) {
                    Ok(r) => writeln!(s, "r {}", r.join(" ")).unwrap(),
                    Err(e) => writeln!(s, "panic {}", e).unwrap(),
                }
                writeln!(s, "fresh {}", exp.join(" ")).unwrap();
                writeln!(s, "clean 1").unwrap();
            }
        }
        writeln!(s, "end").unwrap();
        out.write_all(s.as_bytes()).unwrap();
    }
}

pub fn run(kind: &str, ctx: &Ctx, out: &mut dyn Write) {
    if kind == "corpus" {
        return run_corpus(ctx, out);
    }
    if kind == "c04" {
        huge_count_tables(ctx, out);
    }
    let mut rng = Rng::new(ctx.seed ^ 0x5eed_0002);
    let quick = ctx.tier != "thorough";
    let srcs = sources(ctx, &mut rng);
    let tag = match kind {
        "c02" => "C02",
        "c03" => "C03",
        "c04" => "C04",
        "c05" => "C05",
        _ => "C16",
    };
    let mut k = 0;
    let specials = crate::k_c01::special_inputs(kind);
    let total = specials.len() + srcs.len();
    for idx in 0..total {
        // C05 also gets c2d files that keep a false node (a separate generator class)
        let (inp, c2d_false) = if idx < specials.len() {
            (specials[idx].clone(), false)
        } else {
            let src = &srcs[idx - specials.len()];
            let c2d_false = matches!(kind, "c02" | "c03" | "c04" | "c05") && rng.chance(1, 6);
            match make_input_class(format!("{}-{}", kind, k), src, &mut rng, c2d_false) {
                Some(i) => (i, c2d_false),
                None => continue,
            }
        };
        k += 1;
        let mut s = String::new();
        writeln!(s, "case {} {}", inp.id, tag).unwrap();
        writeln!(s, "info {}", inp.desc).unwrap();
        writeln!(s, "n {}", inp.n).unwrap();
        write_models(&mut s, &inp);
        s.push_str(&file_block(inp.format, &inp.lines));
        match load(&inp.lines, Some(inp.n)) {
            Err(e) => writeln!(s, "impl panic {}", e).unwrap(),
            Ok(mut d) => {
                s.push_str(&dump_circuit(&d));
                let mut core: Vec<i32> = d.core.iter().copied().collect();
                core.sort();
                writeln!(s, "impl core {}", join(&core)).unwrap();
                for op in ops_for(kind, &inp, &mut rng, quick) {
                    let op = match op {
                        Op::SatSub(steps) => {
                            // pick live (count > 0) nodes as sub-roots
                            let live: Vec<usize> = (0..d.nodes.len()).filter(|&i| d.nodes[i].count > num::BigInt::from(0)).collect();
                            Op::SatSub(
                                steps
                                    .into_iter()
                                    .map(|(a, r)| (a, r.map(|_| *rng.pick(&live))))
                                    .collect(),
                            )
                        }
                        o => o,
                    };
                    run_op(&mut d, &op, &mut s);
                }
            }
        }
        writeln!(s, "end").unwrap();
        out.write_all(s.as_bytes()).unwrap();
        // the same requests through the stream interface (judged by the C13 checker: truth table,
        // per-variable answers joined by ';', parameter order, fresh instance)
        // C04 on a history: table, incremental unit-clause edit, table again on the same instance
        if kind == "c04" && inp.n <= 12 && k % 2 == 0 {
            if let (Some(ms), Ok(mut d)) = (inp.models.as_ref(), load(&inp.lines, Some(inp.n))) {
                use ddnnife::parser::intermediate_representation::{ClauseApplication, IncrementalStrategy};
                let holds = |m: u32, l: i32| ((m >> (l.unsigned_abs() - 1)) & 1 == 1) == (l > 0);
                let cands: Vec<i32> = (1..=inp.n as i32)
                    .flat_map(|v| [v, -v])
                    .filter(|&l| ms.iter().any(|&m| holds(m, l)) && ms.iter().any(|&m| !holds(m, l)))
                    .collect();
                if !cands.is_empty() {
                    let l = *rng.pick(&cands);
                    let _ = guarded(|| d.card_of_each_feature().count());
                    let r = guarded(|| d.prepare_and_apply_incremental_edit(vec![(vec![l], ClauseApplication::Add)]));
                    if let Ok(IncrementalStrategy::UnitClause) = r {
                        let mut s = String::new();
                        writeln!(s, "case {}-edited {}", inp.id, tag).unwrap();
                        writeln!(s, "info {} | table, then unit clause [{}] added incrementally, table again", inp.desc, l).unwrap();
                        writeln!(s, "n {}", d.number_of_variables).unwrap();
                        let kept: Vec<u32> = ms.iter().copied().filter(|&m| holds(m, l)).collect();
                        let edited = Input { models: Some(kept), ..inp.clone() };
                        write_models(&mut s, &edited);
                        s.push_str(&dump_circuit(&d));
                        run_op(&mut d, &Op::Table, &mut s);
                        run_op(&mut d, &Op::Count(vec![]), &mut s);
                        run_op(&mut d, &Op::Table, &mut s);
                        writeln!(s, "end").unwrap();
                        out.write_all(s.as_bytes()).unwrap();
                    }
                }
            }
        }
        let cmd = match kind {
            "c02" => Some("count"),
            "c03" => Some("sat"),
            "c05" => Some("core"),
            _ => None,
        };
        if let Some(cmd) = cmd {
            // (c2d files that keep a false node are an ordinary class since the repair F22 of K7)
            if inp.n <= 12 && k % 3 == 0 {
                let mut srng = Rng::new(ctx.seed ^ 0x5713_0000 ^ k as u64);
                let lines = crate::k_c13::query_lines(cmd, inp.n, &mut srng, if quick { 8 } else { 24 });
                let block = crate::k_c13::stream_case(&format!("{}-stream", inp.id), &inp, &lines);
                out.write_all(block.as_bytes()).unwrap();
            }
        }
    }
}
