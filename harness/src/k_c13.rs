//! C13: the stream line handler.  Small nnf-loaded models (C01 input space, n = 2..6); every block
//! is ONE long-lived instance that answers a sequence of lines through `handle_stream_msg`
//! (under `guarded`: a panic is recorded as `P`), plus fresh instances for the oracle.
//!
//! Lines: exhaustive token sequences over the protocol alphabet (all commands, both spellings of
//! every keyword, numbers, ranges, 0, out-of-range and extreme numbers, paths, junk), random longer
//! lines, well-formed lines with permuted keyword groups, printable junk.
//!
//! Block format (kind C13), after the usual header (n, src_models, file, circuit):
//!   profile debug|release
//!   L g|b|w <hex of the line>     g = generated, b = probe battery, w = well-formed generator
//!   # <readable rendition>
//!   R <hex of the answer>  |  P <panic message>
//!   F <hex>                      answer of a FRESH instance to the same line (some lines)
//!   C <choices>                  sampling choice log of the call (hook H2), when not empty
//! Not run (resource guard, counted in `skipped`): lines whose ranges would expand to more than
//! 100 000 numbers (finding K6), `random` / `t-wise` with a limit above 64, `save-*` with an
//! absolute path outside the scratch directory.
//! CNF-loaded models (compiler stand-in, hook H1): kind C13U (update_histories) runs `enum` across
//! accepted clause-update / undo-update lines; the exhaustive line space is run on nnf-loaded
//! models only (clause-update / undo-update / save-cnf: their E5 / E4 paths).
use crate::common::*;
use crate::k_c01::{make_input, write_models, Source};
use crate::k_enum::fmt_choices;
use crate::gen::random_cnf;
use crate::rng::Rng;
use ddnnife::ddnnf::anomalies::config_creation::verif as hook;
use ddnnife::Ddnnf;
use std::fmt::Write as _;
use std::io::Write;

pub const KINDS: &[&str] = &["c13"];

const COMMANDS: &[&str] = &[
    "core", "count", "sat", "enum", "random", "atomic", "atomic-cross", "t-wise", "clause-update",
    "undo-update", "exit", "save-cnf", "save-ddnnf",
];
const KEYWORDS: &[&str] = &[
    "a", "assumptions", "v", "variables", "f", "fitness", "seed", "s", "limit", "l", "path", "p",
    "add", "rmv", "t", "total-features",
];

pub fn hex(s: &str) -> String {
    if s.is_empty() {
        return "-".to_string();
    }
    let mut o = String::with_capacity(2 * s.len());
    for b in s.bytes() {
        write!(o, "{:02x}", b).unwrap();
    }
    o
}

fn readable(s: &str) -> String {
    s.chars().map(|c| if c.is_ascii_graphic() || c == ' ' { c } else { '?' }).collect()
}

struct Alpha {
    first: Vec<String>,
    rest: Vec<String>,
    first_red: Vec<String>,
    rest_red: Vec<String>,
    scratch_path: String,
}

fn alphabet(n: u32, scratch: &str) -> Alpha {
    let n = n as i64;
    let scratch_path = format!("{}/x", scratch);
    let mut first: Vec<String> = COMMANDS.iter().map(|s| s.to_string()).collect();
    first.extend(["revive", "1", "a"].iter().map(|s| s.to_string()));
    let mut rest: Vec<String> = COMMANDS.iter().chain(KEYWORDS.iter()).map(|s| s.to_string()).collect();
    let numbers = vec![
        "0".to_string(), "1".into(), "-1".into(), "2".into(), n.to_string(), (n + 1).to_string(),
        (-n - 1).to_string(), "1..2".into(), "2..".into(), "-1..1".into(),
        // ranges that leave the feature boundary at one end
        format!("1..{}", n + 1), format!("{}..{}", n, n + 2), format!("{}..1", -n - 1),
        "2147483647".into(),
        "-2147483648".into(), "2147483648".into(), "18446744073709551615".into(),
        "99999999999999999999".into(),
    ];
    rest.extend(numbers);
    rest.push(scratch_path.clone());
    rest.push("rel/path".into());
    rest.extend(["3x", "1..2..3", "--1", ";", "1.5"].iter().map(|s| s.to_string()));
    let first_red = ["count", "core", "enum", "random", "clause-update", "save-ddnnf", "sat", "t-wise"]
        .iter().map(|s| s.to_string()).collect();
    let rest_red = vec![
        "a".to_string(), "v".into(), "l".into(), "s".into(), "p".into(), "add".into(), "t".into(),
        "1".into(), "-1".into(), "0".into(), (n + 1).to_string(), "1..2".into(), "2..".into(),
        format!("1..{}", n + 1), "-2147483648".into(), "18446744073709551615".into(), "3x".into(),
    ];
    Alpha { first, rest, first_red, rest_red, scratch_path }
}

/// tokens -> line; mostly single blanks, sometimes tabs / runs of blanks / leading and trailing blanks
fn join_ws(toks: &[String], rng: &mut Rng) -> String {
    if !rng.chance(1, 8) {
        return toks.join(" ");
    }
    let seps = [" ", "\t", "  ", " \t ", "\r", "\x0b", "\x0c"];
    let mut s = String::new();
    if rng.chance(1, 3) {
        s.push_str(*rng.pick(&seps[..]));
    }
    for (i, t) in toks.iter().enumerate() {
        if i > 0 {
            s.push_str(*rng.pick(&seps[..]));
        }
        s.push_str(t);
    }
    if rng.chance(1, 3) {
        s.push_str(*rng.pick(&seps[..]));
    }
    s
}

/// the size a token of the shape [-]d+..[[-]d+] would expand to (None: not of that shape)
fn range_size(tok: &str, boundary: i128) -> Option<i128> {
    let b = tok.as_bytes();
    let mut i = 0;
    let num = |i: &mut usize| -> Option<i128> {
        let st = *i;
        if *i < b.len() && b[*i] == b'-' {
            *i += 1;
        }
        let ds = *i;
        while *i < b.len() && b[*i].is_ascii_digit() {
            *i += 1;
        }
        if *i == ds {
            *i = st;
            return None;
        }
        if *i - ds > 30 {
            return Some(i128::MAX / 4);
        }
        tok[st..*i].parse::<i128>().ok()
    };
    let a = num(&mut i)?;
    if !(b.get(i) == Some(&b'.') && b.get(i + 1) == Some(&b'.')) {
        return None;
    }
    i += 2;
    let hi = match num(&mut i) {
        Some(x) if (-(1i128 << 31)..(1i128 << 31)).contains(&x) => x,
        _ => boundary,
    };
    if !(-(1i128 << 31)..(1i128 << 31)).contains(&a) {
        return Some(0);
    }
    Some((hi - a + 1).max(0))
}

/// resource / safety guard: true = the line is run
fn guard(line: &str, n: u32, scratch_path: &str) -> bool {
    let toks: Vec<&str> = line.split_whitespace().collect();
    if toks.is_empty() {
        return true;
    }
    let has_t = toks.iter().any(|&t| t == "t" || t == "total-features");
    let boundary: i128 = if has_t { i32::MAX as i128 } else { n as i128 };
    for t in &toks {
        if let Some(sz) = range_size(t, boundary) {
            if sz > 100_000 {
                return false;
            }
        }
    }
    if toks[0] == "random" || toks[0] == "t-wise" {
        for w in toks.windows(2) {
            if w[0] == "l" || w[0] == "limit" {
                let v = w[1].strip_prefix('+').unwrap_or(w[1]);
                if v.len() > 2 && v.bytes().all(|c| c.is_ascii_digit()) {
                    return false;
                }
                if let Ok(x) = v.parse::<u64>() {
                    if x > 64 {
                        return false;
                    }
                }
            }
        }
    }
    if toks[0].starts_with("save-") {
        for t in &toks[1..] {
            if t.starts_with('/') && *t != scratch_path && *t != "/" {
                return false;
            }
        }
    }
    true
}

struct Entry {
    flag: char,
    line: String,
}

fn num_tok(rng: &mut Rng, n: u32) -> String {
    let n = n as i64;
    match rng.below(10) {
        0 => {
            let a = rng.range(-n, n);
            let b = rng.range(a, n);
            format!("{}..{}", a, b)
        }
        1 => format!("{}..", rng.range(1, n)),
        2 => "0".to_string(),
        _ => {
            let x = rng.range(1, n);
            if rng.coin() { x.to_string() } else { (-x).to_string() }
        }
    }
}

/// a well-formed line `cmd [a nums] [v nums] [l k] [s k]` and a variant with the groups permuted
fn well_formed(rng: &mut Rng, n: u32) -> Vec<String> {
    let cmd = *rng.pick(&["count", "count", "sat", "core", "core", "enum", "random"]);
    let mut groups: Vec<Vec<String>> = Vec::new();
    if rng.chance(3, 4) {
        let mut g = vec![if rng.coin() { "a" } else { "assumptions" }.to_string()];
        for _ in 0..(1 + rng.below(3)) {
            g.push(num_tok(rng, n));
        }
        groups.push(g);
    }
    if (cmd == "count" || cmd == "sat" || cmd == "core") && rng.chance(2, 3) {
        let mut g = vec![if rng.coin() { "v" } else { "variables" }.to_string()];
        for _ in 0..(1 + rng.below(3)) {
            g.push(num_tok(rng, n));
        }
        groups.push(g);
    }
    if (cmd == "enum" || cmd == "random") && rng.chance(2, 3) {
        groups.push(vec![if rng.coin() { "l" } else { "limit" }.to_string(), rng.below(6).to_string()]);
    }
    if cmd == "random" && rng.coin() {
        groups.push(vec![if rng.coin() { "s" } else { "seed" }.to_string(), rng.below(50).to_string()]);
    }
    let mk = |gs: &Vec<Vec<String>>| {
        let mut t = vec![cmd.to_string()];
        for g in gs {
            t.extend(g.iter().cloned());
        }
        t.join(" ")
    };
    let mut out = vec![mk(&groups)];
    if groups.len() >= 2 {
        let mut g2 = groups.clone();
        g2.reverse();
        out.push(mk(&g2));
    }
    out
}

fn junk(rng: &mut Rng, thorough: bool) -> String {
    let len = rng.below(40) as usize;
    let mut s = String::new();
    for _ in 0..len {
        let c = if thorough && rng.chance(1, 40) {
            // control characters other than line breaks
            *rng.pick(&[0u8, 1, 7, 8, 9, 11, 12, 13, 27, 31, 127])
        } else if rng.chance(1, 5) {
            b' '
        } else if rng.chance(1, 4) {
            *rng.pick(b"0123456789-.")
        } else {
            32 + rng.below(95) as u8
        };
        s.push(c as char);
    }
    s
}

fn probe_battery(n: u32) -> Vec<String> {
    vec![
        format!("count v -{}..", n),
        "sat v 1..".to_string(),
        "core a 1".to_string(),
        "core".to_string(),
        "enum l 1".to_string(),
    ]
}

fn run_entry(d: &mut Ddnnf, e: &Entry, fresh: Option<&[String]>, n: u32, scratch_path: &str, s: &mut String) {
    writeln!(s, "L {} {}", e.flag, hex(&e.line)).unwrap();
    writeln!(s, "# {}", readable(&e.line)).unwrap();
    hook::start_choice_log();
    let r = guarded(|| d.handle_stream_msg(&e.line));
    let ch = hook::take_choice_log();
    match &r {
        Ok(a) => writeln!(s, "R {}", hex(a)).unwrap(),
        Err(m) => writeln!(s, "P {}", m).unwrap(),
    }
    if !ch.is_empty() {
        writeln!(s, "C {}", fmt_choices(&ch)).unwrap();
    }
    let _ = std::fs::remove_file(scratch_path);
    if let (Some(lines), Ok(a)) = (fresh, &r) {
        if !a.starts_with('E') {
            if let Ok(mut d2) = load(lines, Some(n)) {
                match guarded(|| d2.handle_stream_msg(&e.line)) {
                    Ok(a2) => writeln!(s, "F {}", hex(&a2)).unwrap(),
                    Err(m) => writeln!(s, "F {}", hex(&format!("PANIC {}", m))).unwrap(),
                }
            }
        }
    }
}

/// A C13 block for `inp` with the given lines (all flagged well-formed, each also answered by a
/// fresh instance): used by the C02 / C03 / C05 runs to observe count / sat / core through the
/// stream interface.
pub fn stream_case(id: &str, inp: &crate::k_c01::Input, lines: &[String]) -> String {
    let profile = if cfg!(debug_assertions) { "debug" } else { "release" };
    let n = inp.n;
    let mut s = String::new();
    writeln!(s, "case {} C13", id).unwrap();
    writeln!(s, "info {} | {} | stream view", inp.desc, profile).unwrap();
    writeln!(s, "n {}", n).unwrap();
    write_models(&mut s, inp);
    s.push_str(&file_block(inp.format, &inp.lines));
    match load(&inp.lines, Some(n)) {
        Err(e) => writeln!(s, "impl panic {}", e).unwrap(),
        Ok(mut d) => {
            s.push_str(&dump_circuit(&d));
            writeln!(s, "profile {}", profile).unwrap();
            let scratch = format!("{}/../.cache/run/C13/unused-{}.nnf", env!("CARGO_MANIFEST_DIR"), std::process::id());
            for l in lines {
                run_entry(&mut d, &Entry { flag: 'w', line: l.clone() }, Some(&inp.lines[..]), n, &scratch, &mut s);
            }
            let clean = d.verif_markers().iter().all(|m| !m) && d.md.is_empty();
            writeln!(s, "clean {}", clean as u8).unwrap();
        }
    }
    writeln!(s, "end").unwrap();
    s
}

/// random well-formed `cmd [a ..] [v ..]` lines (both spellings, any group order, some ranges)
pub fn query_lines(cmd: &str, n: u32, rng: &mut Rng, count: usize) -> Vec<String> {
    let mut out = vec![cmd.to_string()];
    for _ in 0..count {
        let mut groups: Vec<String> = Vec::new();
        if rng.chance(2, 3) {
            let len = 1 + rng.below(2) as usize;
            let c = rng.chance(4, 5);
            let a = crate::k_ops::random_list(rng, n, len, c);
            groups.push(format!("{} {}", if rng.coin() { "a" } else { "assumptions" }, join(&a)));
        }
        if rng.chance(2, 3) {
            let len = 1 + rng.below(4) as usize;
            let v = if rng.chance(1, 5) && n >= 2 {
                format!("1..{}", 1 + rng.below(n as u64))
            } else {
                join(&crate::k_ops::random_list(rng, n, len, false))
            };
            groups.push(format!("{} {}", if rng.coin() { "v" } else { "variables" }, v));
        }
        if rng.coin() {
            groups.reverse();
        }
        out.push(format!("{} {}", cmd, groups.join(" ")).trim().to_string());
    }
    out
}

fn circuit_line(d: &Ddnnf) -> String {
    let dump = dump_circuit(d);
    let nodes: Vec<&str> = dump.lines().skip(1).collect();
    format!("NC {} {}", d.number_of_variables, nodes.join(" ; "))
}

/// Kind C13U: enumeration across model updates inside one stream session.
/// A CNF-loaded model (compiler stand-in, hook H1) answers a history of `enum` / `count` /
/// `clause-update add|rmv` / `undo-update` lines through `handle_stream_msg`.  The harness keeps
/// the clause set the session is at (an abstract two-slot machine: current / previous, `undo`
/// swaps them) and writes after every line
///   T <masks>      the truth table of the clause set the session is at after the line
///   NC <n> <nodes> the node vector of the live model after the line
/// Updates are chosen satisfiable (an unsatisfiable update panics: finding K9, not this check's
/// business), add only clauses not in the set, remove only clauses added by this history.  Every
/// second update is picked to leave FEWER configurations than the position the cursor of the
/// empty assumption set has reached.  What is right is decided by ocaml/chk_c13.ml (check_update).
fn update_histories(ctx: &Ctx, rng: &mut Rng, profile: &str, scratch: &str, out: &mut dyn Write) {
    use crate::gen::{models, Cnf};
    let thorough = ctx.tier == "thorough";
    crate::cnfc::register();
    let ncases = if thorough { 150 } else { 30 };
    for case in 0..ncases {
        let n = 2 + rng.below(4) as u32; // 2..5
        // a start CNF with at least 4 configurations
        let mut cnf: Cnf;
        loop {
            let m = rng.below(n as u64) as usize;
            cnf = random_cnf(rng, n, m, 3);
            cnf.retain(|c| !c.is_empty());
            for c in cnf.iter_mut() {
                c.sort_by_key(|l| l.abs());
            }
            cnf.sort();
            cnf.dedup();
            if models(&cnf, n).len() >= 4 {
                break;
            }
        }
        let path = std::path::Path::new(scratch).join(format!("c13u-{}-{}-{}.cnf", std::process::id(), profile, case));
        crate::cnfc::write_dimacs(&path, &cnf, n);
        let loaded = guarded(|| ddnnife::parser::build_ddnnf(&path, Some(n)));
        let _ = std::fs::remove_file(&path);
        let mut s = String::new();
        writeln!(s, "case c13u-{}-{} C13U", profile, case).unwrap();
        writeln!(s, "info CNF-loaded model, enum across clause-update / undo-update | {} | start CNF {:?}", profile, cnf).unwrap();
        writeln!(s, "n {}", n).unwrap();
        writeln!(s, "cursor_per_model {}", CURSOR_PER_MODEL as u8).unwrap();
        let mut d = match loaded {
            Ok(d) => d,
            Err(e) => {
                writeln!(s, "impl panic {}", e).unwrap();
                writeln!(s, "end").unwrap();
                out.write_all(s.as_bytes()).unwrap();
                continue;
            }
        };
        s.push_str(&dump_circuit(&d));
        writeln!(s, "profile {}", profile).unwrap();
        writeln!(s, "T {}", join(&models(&cnf, n))).unwrap();
        let mut cur = cnf.clone();
        let mut prev: Option<Cnf> = None;
        let mut added: Vec<Vec<i32>> = Vec::new();
        let mut handed = 0usize; // configurations handed out for the empty assumption set since the last update
        let steps = if thorough { 24 } else { 14 };
        let mut updates = 0;
        for step in 0..steps {
            let count = models(&cur, n).len();
            let mut next_cur: Option<(Cnf, Option<Cnf>)> = None; // (current, previous) if the line is accepted
            let line = match if step == 0 { 0 } else { rng.below(10) } {
                0 | 1 | 2 => {
                    // move the cursor of the empty assumption set, mostly not to a cycle boundary
                    let k = 1 + rng.below(count as u64) as usize;
                    handed += k;
                    format!("enum l {}", k)
                }
                3 => "enum".to_string(),
                4 => {
                    let f = 1 + rng.below(n as u64) as i32;
                    format!("enum a {} l {}", if rng.coin() { f } else { -f }, 1 + rng.below(3))
                }
                5 => "count".to_string(),
                6 if prev.is_some() || rng.chance(1, 4) => {
                    if let Some(p) = prev.clone() {
                        next_cur = Some((p, Some(cur.clone())));
                    } else {
                        next_cur = Some((cur.clone(), None));
                    }
                    "undo-update".to_string()
                }
                7 if !added.is_empty() && added.iter().any(|c| cur.contains(c)) => {
                    let present: Vec<Vec<i32>> = added.iter().filter(|c| cur.contains(c)).cloned().collect();
                    let c = rng.pick(&present).clone();
                    let mut nc = cur.clone();
                    nc.retain(|x| *x != c);
                    next_cur = Some((nc, Some(cur.clone())));
                    format!("clause-update rmv {} 0", join(&c))
                }
                _ => {
                    // add a clause that is not in the set and keeps the formula satisfiable;
                    // every second update: prefer one that leaves fewer configurations than the
                    // cursor position of the empty assumption set
                    let pos = handed % count.max(1);
                    let want_shrink = updates % 2 == 0 && pos > 0;
                    let mut best: Option<(Vec<i32>, usize)> = None;
                    for _ in 0..40 {
                        let w = 1 + rng.below(2.min(n as u64)) as usize;
                        let mut c: Vec<i32> = Vec::new();
                        for _ in 0..w {
                            let v = 1 + rng.below(n as u64) as i32;
                            if !c.iter().any(|l| l.abs() == v) {
                                c.push(if rng.coin() { v } else { -v });
                            }
                        }
                        c.sort_by_key(|l| l.abs());
                        if cur.contains(&c) {
                            continue;
                        }
                        let mut nc = cur.clone();
                        nc.push(c.clone());
                        let m = models(&nc, n).len();
                        if m == 0 || m == count {
                            continue;
                        }
                        let good = if want_shrink { m <= pos } else { true };
                        if best.is_none() || (good && best.as_ref().map(|b| !(b.1 <= pos)).unwrap_or(true)) {
                            best = Some((c, m));
                        }
                        if good {
                            break;
                        }
                    }
                    match best {
                        Some((c, _)) => {
                            let mut nc = cur.clone();
                            nc.push(c.clone());
                            nc.sort();
                            next_cur = Some((nc, Some(cur.clone())));
                            added.push(c.clone());
                            updates += 1;
                            format!("clause-update add {} 0", join(&c))
                        }
                        None => "count".to_string(),
                    }
                }
            };
            writeln!(s, "L u {}", hex(&line)).unwrap();
            writeln!(s, "# {}", readable(&line)).unwrap();
            let r = guarded(|| d.handle_stream_msg(&line));
            match &r {
                Ok(a) => writeln!(s, "R {}", hex(a)).unwrap(),
                Err(m) => writeln!(s, "P {}", m).unwrap(),
            }
            if let (Some((c, p)), Ok(a)) = (next_cur, &r) {
                if a.is_empty() {
                    cur = c;
                    prev = p;
                    handed = 0;
                }
            }
            writeln!(s, "T {}", join(&models(&cur, n))).unwrap();
            writeln!(s, "{}", circuit_line(&d)).unwrap();
            if r.is_err() {
                break; // the instance is in an unknown state after a panic
            }
        }
        let clean = d.verif_markers().iter().all(|m| !m) && d.md.is_empty();
        writeln!(s, "clean {}", clean as u8).unwrap();
        writeln!(s, "end").unwrap();
        out.write_all(s.as_bytes()).unwrap();
    }
}

pub fn run(_kind: &str, ctx: &Ctx, out: &mut dyn Write) {
    let mut rng = Rng::new(ctx.seed ^ 0x5eed_0013);
    let thorough = ctx.tier == "thorough";
    let scratch = std::env::var("VERIF_SCRATCH").unwrap_or_else(|_| {
        let p = std::env::temp_dir().join("verif-c13-scratch");
        p.to_string_lossy().to_string()
    });
    std::fs::create_dir_all(&scratch).unwrap();
    let profile = if cfg!(debug_assertions) { "debug" } else { "release" };
    let block_len = 2500usize;
    let mut case_no = 0usize;
    let mut skipped = 0usize;

    // models: n = 2..6, a few per n
    let per_n = if thorough { 3 } else { 1 };
    let mut model_no = 0;
    for n in 2..=6u32 {
        for rep in 0..per_n {
            // a satisfiable source over exactly n features
            let inp = loop {
                let m = rng.below(2 * n as u64 + 1) as usize;
                let maxw = 1 + rng.below(3) as usize;
                let src = Source {
                    cnf: random_cnf(&mut rng, n, m, maxw),
                    n,
                    desc: format!("c13 model#{} n={} m={} w<={}", model_no, n, m, maxw),
                };
                if let Some(i) = make_input(format!("c13-m{}", model_no), &src, &mut rng) {
                    if load(&i.lines, Some(n)).is_ok() {
                        break i;
                    }
                }
            };
            model_no += 1;
            let al = alphabet(n, &scratch);

            // ---- the lines of this model
            let mut entries: Vec<Entry> = Vec::new();
            let mut push = |entries: &mut Vec<Entry>, flag: char, line: String, skipped: &mut usize| {
                if guard(&line, n, &al.scratch_path) {
                    entries.push(Entry { flag, line });
                } else {
                    *skipped += 1;
                }
            };
            // exhaustive part: the first model of n = 2 and of n = 3 (quick), every first model (thorough)
            let exhaustive = rep == 0 && (if thorough { true } else { n == 2 || n == 3 });
            if exhaustive {
                push(&mut entries, 'g', String::new(), &mut skipped);
                for a in &al.first {
                    push(&mut entries, 'g', join_ws(&[a.clone()], &mut rng), &mut skipped);
                    for b in &al.rest {
                        push(&mut entries, 'g', join_ws(&[a.clone(), b.clone()], &mut rng), &mut skipped);
                        for c in &al.rest {
                            push(&mut entries, 'g', join_ws(&[a.clone(), b.clone(), c.clone()], &mut rng), &mut skipped);
                        }
                    }
                }
                // length 4 (and 5, 6 in the thorough tier) over the reduced alphabet
                let maxlen = if thorough { 5 } else { 4 };
                for len in 4..=maxlen {
                    let k = al.rest_red.len();
                    let total = k.pow((len - 1) as u32);
                    for a in &al.first_red {
                        for code in 0..total {
                            // thorough length 5: every third sequence
                            if len == 5 && code % 3 != (rep as usize) % 3 {
                                continue;
                            }
                            let mut toks = vec![a.clone()];
                            let mut c = code;
                            for _ in 1..len {
                                toks.push(al.rest_red[c % k].clone());
                                c /= k;
                            }
                            push(&mut entries, 'g', join_ws(&toks, &mut rng), &mut skipped);
                        }
                    }
                }
            }
            // sampled sequences over the full alphabet, lengths 4..6 and longer
            let nsamp = ctx.count * if thorough { 40 } else { 10 };
            for _ in 0..nsamp {
                let len = *rng.pick(&[4usize, 4, 5, 5, 6, 6, 7, 9, 12]);
                let mut toks = vec![rng.pick(&al.first).clone()];
                for _ in 1..len {
                    // bias towards keyword / number alternation
                    let t = if rng.chance(1, 3) {
                        rng.pick(KEYWORDS).to_string()
                    } else {
                        rng.pick(&al.rest).clone()
                    };
                    toks.push(t);
                }
                push(&mut entries, 'g', join_ws(&toks, &mut rng), &mut skipped);
            }
            // well-formed lines and their permuted variants
            for _ in 0..(ctx.count * if thorough { 20 } else { 6 }) {
                for l in well_formed(&mut rng, n) {
                    push(&mut entries, 'w', l, &mut skipped);
                }
            }
            // printable junk
            for _ in 0..(ctx.count * if thorough { 20 } else { 5 }) {
                let j = junk(&mut rng, thorough);
                push(&mut entries, 'g', j, &mut skipped);
            }
            // the known refuted inputs (F2) and their neighbours
            for l in [
                "clause-update t 5", "clause-update total-features 5", "clause-update t 0 add 1",
                "count a -2147483648", "count a -2147483648 v 1", "count a -2147483648..-2147483647",
                "enum l 1", "enum l 18446744073709551615", "enum l 18446744073709551615",
                "enum l 18446744073709551614", "enum",
                // finding K12 / repair F19: the cursor belongs to the SET of assumed literals, every
                // spelling continues the same cycle (the model's answer text is compared exactly)
                "enum a 1 l 1", "enum a 1 1 l 1", "enum a 1 l 1", "enum a 1 1 1 l 2", "enum a -2 1 l 1",
                "enum a 1 -2 1 -2 l 1", "enum a -2 -2 1 l 1", "enum a 1 l 1",
            ] {
                push(&mut entries, 'g', l.to_string(), &mut skipped);
            }
            // keep the exhaustive part in order (short lines first), shuffle only the sampled tail?  No:
            // one deterministic order; the battery is interleaved below.

            // ---- blocks
            let battery = probe_battery(n);
            for chunk in entries.chunks(block_len) {
                let mut s = String::new();
                writeln!(s, "case c13-{}-{} C13", profile, case_no).unwrap();
                case_no += 1;
                writeln!(s, "info {} | {}", inp.desc, profile).unwrap();
                writeln!(s, "n {}", n).unwrap();
                write_models(&mut s, &inp);
                s.push_str(&file_block(inp.format, &inp.lines));
                match load(&inp.lines, Some(n)) {
                    Err(e) => writeln!(s, "impl panic {}", e).unwrap(),
                    Ok(mut d) => {
                        s.push_str(&dump_circuit(&d));
                        writeln!(s, "profile {}", profile).unwrap();
                        writeln!(s, "scratch {}", al.scratch_path).unwrap();
                        // the instance of this block is freshly loaded: its cursor is fresh (F21)
                        for e in chunk {
                            // probe battery before and after a sampled subset of the lines
                            let probed = rng.chance(1, 8);
                            if probed {
                                for b in &battery {
                                    run_entry(&mut d, &Entry { flag: 'b', line: b.clone() }, None, n, &al.scratch_path, &mut s);
                                }
                            }
                            let first = e.line.split_whitespace().next().unwrap_or("");
                            let fresh = if (first == "count" || first == "sat" || first == "core")
                                && (e.flag == 'w' || rng.chance(1, 8))
                            {
                                Some(&inp.lines[..])
                            } else {
                                None
                            };
                            run_entry(&mut d, e, fresh, n, &al.scratch_path, &mut s);
                            if probed {
                                for b in &battery {
                                    run_entry(&mut d, &Entry { flag: 'b', line: b.clone() }, None, n, &al.scratch_path, &mut s);
                                }
                            }
                        }
                        let clean = d.verif_markers().iter().all(|m| !m) && d.md.is_empty();
                        writeln!(s, "clean {}", clean as u8).unwrap();
                        writeln!(s, "has_cache {}", d.verif_has_cached_state() as u8).unwrap();
                    }
                }
                writeln!(s, "end").unwrap();
                out.write_all(s.as_bytes()).unwrap();
            }
        }
    }
    // ---- finding K6 (bounded variant): ranges are expanded BEFORE the boundary check, so the cost of
    // a rejected line grows with the range although the boundary is n.  Wall-clock of
    // `count a 1..K` for growing K on a 5-feature model (the answer is the E3 boundary error).
    {
        let n = 5u32;
        let free: Vec<String> = vec!["t 1 0".to_string()];
        let mut s = String::new();
        writeln!(s, "case c13-{}-k6 C13", profile).unwrap();
        writeln!(s, "info resource probe: range expansion before the boundary check | {}", profile).unwrap();
        writeln!(s, "k6 1").unwrap();
        if let Ok(mut d) = load(&free, Some(n)) {
            for k in [3_000u64, 30_000, 300_000, 3_000_000] {
                let line = format!("count a 1..{}", k);
                let mut best = u128::MAX;
                let mut ans = String::new();
                for _ in 0..3 {
                    let t = std::time::Instant::now();
                    let r = guarded(|| d.handle_stream_msg(&line));
                    best = best.min(t.elapsed().as_nanos());
                    ans = match r { Ok(a) => a, Err(m) => format!("PANIC {}", m) };
                }
                writeln!(s, "K6 {} {} {}", k, best, hex(&ans)).unwrap();
            }
        }
        writeln!(s, "end").unwrap();
        out.write_all(s.as_bytes()).unwrap();
    }
    // ---- enumeration state and OTHER models / model updates (was finding K2; repaired by F21).
    // (a) Two models in one process: a page handed out by a model with 8 configurations must not
    // move the cursor of a model with 3 (before F21 the cursor was process-global and keyed by the
    // assumptions only: `enum` on the smaller model then underflowed `range.1 - range.0` in
    // enumerate_node - panic in debug builds, a wrapped take() in release builds).  An ordinary C13
    // block for the smaller model: exact answers against the Coq model (fresh cursor) and the
    // truth-table rule for `enum`; `other_model` marks the block for the signature.
    {
        let big: Vec<String> = vec!["t 1 0".to_string()]; // 3 free features: 8 configurations
        let small: Vec<String> = vec!["o 1 0".to_string(), "t 2 0".to_string(), "1 2 1 0".to_string(), "1 2 -1 2 0".to_string()];
        if let (Ok(mut a), Ok(mut b)) = (load(&big, Some(3)), load(&small, Some(2))) {
            let mut s = String::new();
            writeln!(s, "case c13-{}-k2 C13", profile).unwrap();
            writeln!(s, "info two models in one process, each with its own enumeration cursor | {}", profile).unwrap();
            writeln!(s, "n 2").unwrap();
            // x1 or (not x1 and x2): masks (bit 0 = feature 1)
            writeln!(s, "src_count 3").unwrap();
            writeln!(s, "src_models 1 2 3").unwrap();
            s.push_str(&file_block("d4", &small));
            s.push_str(&dump_circuit(&b));
            writeln!(s, "profile {}", profile).unwrap();
            // the other model hands out a page of 5 (its cursor for the empty assumption set -> 5)
            let other = guarded(|| a.handle_stream_msg("enum l 5"));
            writeln!(s, "other_model {}", hex(&other.unwrap_or_else(|m| format!("PANIC {}", m)))).unwrap();
            for l in ["enum", "enum l 2", "enum l 2"] {
                run_entry(&mut b, &Entry { flag: 'g', line: l.to_string() }, None, 2, "/nonexistent", &mut s);
                // ... and keeps paging in between
                let _ = guarded(|| a.handle_stream_msg("enum l 3"));
            }
            writeln!(s, "end").unwrap();
            out.write_all(s.as_bytes()).unwrap();
        }
    }
    // (b) One stream session on a CNF-loaded model (stand-in compiler, hook H1): `enum` pages,
    // clause-update / undo-update replace the model (also by one with fewer configurations than
    // the cursor position), `enum` again.  Kind C13U, see update_histories.
    update_histories(ctx, &mut rng, profile, &scratch, out);
    // a last block that only carries the statistics of the generator
    let mut s = String::new();
    writeln!(s, "case c13-{}-stats C13", profile).unwrap();
    writeln!(s, "skipped {}", skipped).unwrap();
    writeln!(s, "end").unwrap();
    out.write_all(s.as_bytes()).unwrap();
}
