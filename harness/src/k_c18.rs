//! C18: reproducibility across reloads: every file is loaded repeatedly in one process (each
//! load draws fresh hash keys) and, in the thorough tier, in separate processes; the dumped node
//! vectors and seeded sample lists must be identical.
use crate::common::*;
use crate::k_c01::{make_input, sources, write_models};
use crate::k_enum::fmt_cfgs;
use crate::k_ops::random_list;
use crate::rng::Rng;
use std::fmt::Write as _;
use std::io::Write;

pub const KINDS: &[&str] = &["c18", "c18dump"];

/// `worker`: which requests of OTHER clients this instance (= one stream worker's clone) served
/// before each seeded request: 0 none, 1 a request that is refused (assumptions contradicting a
/// core literal, or contradictory), 2 a marking inspection.  With `stream -j N` the thread timing
/// decides which worker's clone answers a line, so the seeded answers must not depend on it.
fn one_load(lines: &[String], n: u32, reqs: &[(Vec<i32>, usize, u64)], worker: usize) -> String {
    let mut s = String::new();
    match load(lines, Some(n)) {
        Err(e) => writeln!(s, "panic {}", e).unwrap(),
        Ok(mut d) => {
            let dump = dump_circuit(&d).replace('\n', " / ");
            writeln!(s, "dump {}", dump).unwrap();
            let refused: Vec<i32> = match d.core.iter().copied().min() {
                Some(c) => vec![-c],
                None => vec![1, -1],
            };
            for (a, k, seed) in reqs {
                match worker {
                    1 => {
                        let _ = guarded(|| d.uniform_random_sampling(&refused, 3, 1));
                    }
                    2 => {
                        let _ = guarded(|| d.get_marked_nodes_clone(&[1]));
                    }
                    _ => {}
                }
                match guarded(|| d.uniform_random_sampling(a, *k, *seed)) {
                    Ok(Some(l)) => writeln!(s, "smp {}", fmt_cfgs(&l)).unwrap(),
                    Ok(None) => writeln!(s, "smp none").unwrap(),
                    Err(e) => writeln!(s, "smp panic {}", e).unwrap(),
                }
            }
        }
    }
    s
}

pub fn run(kind: &str, ctx: &Ctx, out: &mut dyn Write) {
    let mut rng = Rng::new(ctx.seed ^ 0x5eed_0018);
    let quick = ctx.tier != "thorough";
    if kind == "c18dump" {
        // child-process mode: read "n" and the file from stdin, print one load
        let mut text = String::new();
        std::io::Read::read_to_string(&mut std::io::stdin(), &mut text).unwrap();
        let mut it = text.lines();
        let n: u32 = it.next().unwrap().trim().parse().unwrap();
        let lines: Vec<String> = it.map(|l| l.to_string()).collect();
        let reqs = vec![(vec![], 5usize, 42u64), (vec![], 20, 7)];
        out.write_all(one_load(&lines, n, &reqs, 0).as_bytes()).unwrap();
        return;
    }
    let srcs = sources(ctx, &mut rng);
    let reloads = if quick { 6 } else { 20 };
    let mut k = 0;
    for src in srcs.iter() {
        let inp = match make_input(format!("c18-{}", k), src, &mut rng) {
            Some(i) => i,
            None => continue,
        };
        k += 1;
        let mut s = String::new();
        writeln!(s, "case {} C18", inp.id).unwrap();
        writeln!(s, "info {}", inp.desc).unwrap();
        writeln!(s, "n {}", inp.n).unwrap();
        write_models(&mut s, &inp);
        s.push_str(&file_block(inp.format, &inp.lines));
        let reqs: Vec<(Vec<i32>, usize, u64)> = vec![
            (vec![], 5, 42),
            (vec![], 20, 7),
            (random_list(&mut rng, inp.n, 1, true), 10, rng.below(100)),
        ];
        for (a, kk, seed) in &reqs {
            writeln!(s, "req {} {} | {}", kk, seed, join(a)).unwrap();
        }
        for r in 0..reloads {
            writeln!(s, "reload {}", r).unwrap();
            s.push_str(&one_load(&inp.lines, inp.n, &reqs, r % 3));
        }
        // separate processes (every process has its own hash seeds and address layout)
        if !quick || k % 10 == 0 {
            let exe = std::env::current_exe().unwrap();
            for r in 0..3 {
                let mut child = std::process::Command::new(&exe)
                    .arg("c18dump")
                    .stdin(std::process::Stdio::piped())
                    .stdout(std::process::Stdio::piped())
                    .spawn()
                    .unwrap();
                {
                    let mut stdin = child.stdin.take().unwrap();
                    writeln!(stdin, "{}", inp.n).unwrap();
                    for l in &inp.lines {
                        writeln!(stdin, "{}", l).unwrap();
                    }
                }
                let o = child.wait_with_output().unwrap();
                writeln!(s, "process {}", r).unwrap();
                // only the first two requests are issued in the child
                let text = String::from_utf8_lossy(&o.stdout).to_string();
                s.push_str(&text);
            }
        }
        writeln!(s, "end").unwrap();
        out.write_all(s.as_bytes()).unwrap();
    }
}
