//! C11: incremental clause edits (`Ddnnf::prepare_and_apply_incremental_edit`).
//!
//! One case block = one history on one long-lived instance:
//!   mode nnf   the model is loaded from a d4/c2d file of the C01 input space (no source CNF inside
//!              ddnnife); history = add the unit clause [l], then the inverse edit (remove [l]);
//!              l ranges over every literal that keeps the formula satisfiable and over the literals
//!              of the next new variables (n+1, -(n+1), n+2)
//!   mode cnf   the model is loaded from a DIMACS file through the stand-in compiler (hook H1);
//!              history = up to 3 (quick) / 4 (thorough) edits of clauses of width 1..4: new variables,
//!              tautological clauses, duplicate literals, duplicate clauses, removals, inverse edits
//!   mode rc    direct calls of `reduce_clause` (clause, decisions)
//! After the load and after every edit: the dumped node vector and the battery (feature count, total
//! count, count per literal, counts of literal pairs, sat per literal, cached core, one full
//! enumeration cycle from a fresh cursor, seeded samples).  The harness only RECORDS; what is right
//! is decided by the OCaml side (chk_c11.ml) from the source formula.
use crate::cnfc;
use crate::common::*;
use crate::gen::*;
use crate::k_c01::{make_input, sources};
use crate::rng::Rng;
use ddnnife::ddnnf::anomalies::config_creation::verif as hook;
use ddnnife::parser::from_cnf::reduce_clause;
use ddnnife::parser::intermediate_representation::{ClauseApplication, IncrementalStrategy};
use ddnnife::{Ddnnf, NodeType};
use num::{BigInt, ToPrimitive, Zero};
use std::collections::{BTreeSet, HashSet};
use std::fmt::Write as _;
use std::io::Write;
use std::path::PathBuf;

pub const KINDS: &[&str] = &["c11", "c11h"];

type Edit = Vec<(Vec<i32>, bool)>; // (clause, is_add)

fn circ_line(d: &Ddnnf) -> String {
    let mut parts: Vec<String> = Vec::with_capacity(d.nodes.len());
    for node in d.nodes.iter() {
        parts.push(match &node.ntype {
            NodeType::Literal { literal } => format!("L {}", literal),
            NodeType::And { children } => format!("A {}", join(children)).trim_end().to_string(),
            NodeType::Or { children } => format!("O {}", join(children)).trim_end().to_string(),
            NodeType::True => "T".to_string(),
            NodeType::False => "F".to_string(),
        });
    }
    format!("circ {}", parts.join(" | "))
}

fn fmt_cfgs(v: &[Vec<i32>]) -> String {
    if v.is_empty() {
        return "empty".to_string();
    }
    v.iter().map(|c| join(c)).collect::<Vec<_>>().join(" ; ")
}

/// the battery of requests after the load / after an edit
fn battery(d: &mut Ddnnf, s: &mut String, sample_seed: u64) {
    let nv = d.number_of_variables as i32;
    writeln!(s, "{}", circ_line(d)).unwrap();
    writeln!(s, "b nvars {}", nv).unwrap();
    writeln!(s, "b root0 {}", (d.inter_graph.root.index() == 0) as u8).unwrap();
    writeln!(s, "b fromcnf {}", d.inter_graph.from_cnf as u8).unwrap();
    let rc = match guarded(|| d.rc()) {
        Ok(r) => {
            writeln!(s, "b rc {}", r).unwrap();
            r
        }
        Err(e) => {
            writeln!(s, "b rc panic {}", e).unwrap();
            BigInt::zero()
        }
    };
    let lits: Vec<i32> = (1..=nv).flat_map(|v| [v, -v]).collect();
    // count a x for every literal x
    let mut t = Vec::new();
    for &l in &lits {
        t.push(match guarded(|| d.execute_query(&[l])) {
            Ok(r) => format!("{}:{}", l, r),
            Err(_) => format!("{}:panic", l),
        });
    }
    writeln!(s, "b cnt {}", t.join(" ")).unwrap();
    // counts of literal pairs (marker strategy with two assumptions)
    let mut t = Vec::new();
    if nv >= 2 && nv <= 6 {
        for i in 1..=nv {
            for j in (i + 1)..=nv {
                for (a, b) in [(i, j), (i, -j), (-i, j), (-i, -j)] {
                    t.push(match guarded(|| d.execute_query(&[a, b])) {
                        Ok(r) => format!("{},{}:{}", a, b, r),
                        Err(_) => format!("{},{}:panic", a, b),
                    });
                }
            }
        }
    } else if nv > 6 {
        let mut r = Rng::new(sample_seed ^ 0xc11);
        for _ in 0..8 {
            let i = 1 + r.below(nv as u64) as i32;
            let mut j = 1 + r.below(nv as u64) as i32;
            if j == i {
                j = if i == nv { 1 } else { i + 1 };
            }
            let a = if r.coin() { i } else { -i };
            let b = if r.coin() { j } else { -j };
            t.push(match guarded(|| d.execute_query(&[a, b])) {
                Ok(r) => format!("{},{}:{}", a, b, r),
                Err(_) => format!("{},{}:panic", a, b),
            });
        }
    }
    writeln!(s, "b cnt2 {}", t.join(" ")).unwrap();
    // sat
    let mut t = vec![match guarded(|| d.sat(&[])) {
        Ok(r) => format!("0:{}", r as u8),
        Err(_) => "0:panic".to_string(),
    }];
    for &l in &lits {
        t.push(match guarded(|| d.sat(&[l])) {
            Ok(r) => format!("{}:{}", l, r as u8),
            Err(_) => format!("{}:panic", l),
        });
    }
    writeln!(s, "b sat {}", t.join(" ")).unwrap();
    // cached core
    let mut core: Vec<i32> = d.get_core().into_iter().collect();
    core.sort();
    writeln!(s, "b core {}", join(&core)).unwrap();
    // one full enumeration cycle from a fresh cursor (the instance is long-lived: its own cursor is reset)
    crate::common::reset_cursor(d);
    let amount = rc.to_usize().unwrap_or(0).clamp(1, 5000);
    match guarded(|| d.enumerate(&mut vec![], amount)) {
        Ok(Some(l)) => writeln!(s, "b enum {}", fmt_cfgs(&l)).unwrap(),
        Ok(None) => writeln!(s, "b enum none").unwrap(),
        Err(e) => writeln!(s, "b enum panic {}", e).unwrap(),
    }
    crate::common::reset_cursor(d);
    // seeded samples
    for k in 0..2u64 {
        let seed = sample_seed.wrapping_add(k) % 1000;
        match guarded(|| d.uniform_random_sampling(&[], 4, seed)) {
            Ok(Some(l)) => writeln!(s, "b sample {} 4 {}", seed, fmt_cfgs(&l)).unwrap(),
            Ok(None) => writeln!(s, "b sample {} 4 none", seed).unwrap(),
            Err(e) => writeln!(s, "b sample {} 4 panic {}", seed, e).unwrap(),
        }
    }
    let clean = d.verif_markers().iter().all(|m| !m) && d.md.is_empty();
    writeln!(s, "b clean {}", clean as u8).unwrap();
}

fn fmt_edit(e: &Edit) -> String {
    e.iter()
        .map(|(c, add)| format!("{} {}", if *add { "add" } else { "rmv" }, join(c)).trim_end().to_string())
        .collect::<Vec<_>>()
        .join(" ; ")
}

fn strategy_name(st: IncrementalStrategy) -> &'static str {
    match st {
        IncrementalStrategy::Tautology => "Tautology",
        IncrementalStrategy::UnitClause => "UnitClause",
        IncrementalStrategy::SubDAGReplacement => "SubDAGReplacement",
        IncrementalStrategy::Recompile => "Recompile",
        IncrementalStrategy::Undo => "Undo",
        IncrementalStrategy::Error => "Error",
    }
}

/// applies one edit; returns false when the call panicked (the history stops there)
fn apply(d: &mut Ddnnf, k: usize, e: &Edit, s: &mut String, seed: u64) -> bool {
    writeln!(s, "step {} {}", k, fmt_edit(e)).unwrap();
    // reduce_clause on every clause of the edit (what prepare_and_apply_incremental_edit keeps)
    for (c, _) in e {
        let r = guarded(|| reduce_clause(c, &HashSet::new()));
        writeln!(s, "red {} => {}", join(c), fmt_reduced(&r)).unwrap();
    }
    let ops: Vec<(Vec<i32>, ClauseApplication)> = e
        .iter()
        .map(|(c, add)| (c.clone(), if *add { ClauseApplication::Add } else { ClauseApplication::Remove }))
        .collect();
    match guarded(|| d.prepare_and_apply_incremental_edit(ops)) {
        Ok(st) => {
            writeln!(s, "impl strategy {}", strategy_name(st)).unwrap();
            if d.nodes.is_empty() {
                writeln!(s, "impl panic empty node vector after the edit").unwrap();
                return false;
            }
            battery(d, s, seed);
            true
        }
        Err(msg) => {
            writeln!(s, "impl panic {} (at {})", msg, PANIC_AT.lock().unwrap()).unwrap();
            false
        }
    }
}

fn fmt_reduced(r: &Result<Option<Vec<i32>>, String>) -> String {
    match r {
        Ok(Some(v)) => {
            let mut v = v.clone();
            v.sort();
            format!("some {}", join(&v)).trim_end().to_string()
        }
        Ok(None) => "none".to_string(),
        Err(e) => format!("panic {}", e),
    }
}

fn has_model_with(models: &[u32], l: i32) -> bool {
    models.iter().any(|&m| {
        let bit = (m >> (l.unsigned_abs() - 1)) & 1 == 1;
        if l > 0 { bit } else { !bit }
    })
}

// ---------------------------------------------------------------------------------------------
// (i) nnf-loaded models x unit clauses

fn run_nnf(ctx: &Ctx, rng: &mut Rng, out: &mut dyn Write) {
    let quick = ctx.tier != "thorough";
    // the recompilation paths (build_ddnnf on a temporary CNF) need a compiler as well
    cnfc::register();
    let srcs = sources(ctx, rng);
    let mut k = 0usize;
    for src in srcs.iter() {
        // thorough: the 65 535 functions over 4 features are sampled (1 in 12), everything else is taken
        if src.desc.starts_with("table n=4") && !quick && !rng.chance(1, 12) {
            continue;
        }
        let inp = match make_input(format!("c11n-{}", k), src, rng) {
            Some(i) => i,
            None => continue,
        };
        let models = match &inp.models {
            Some(m) => m.clone(),
            None => continue,
        };
        if inp.n > 12 {
            continue;
        }
        let n = inp.n as i32;
        let mut lits: Vec<i32> = (1..=n).flat_map(|v| [v, -v]).filter(|&l| has_model_with(&models, l)).collect();
        if quick && n > 5 {
            // random inputs: a sample of the literals
            rng.shuffle(&mut lits);
            lits.truncate(4);
        }
        // literals of new variables
        lits.extend([n + 1, -(n + 1), n + 2]);
        for l in lits {
            let mut s = String::new();
            writeln!(s, "case c11n-{}-{} C11", k, l).unwrap();
            writeln!(s, "info {}", inp.desc).unwrap();
            writeln!(s, "mode nnf {}", inp.format).unwrap();
            writeln!(s, "n {}", inp.n).unwrap();
            writeln!(s, "src_models {}", join(&models)).unwrap();
            s.push_str(&file_block(inp.format, &inp.lines));
            match load(&inp.lines, Some(inp.n)) {
                Err(e) => writeln!(s, "impl panic-load {}", e).unwrap(),
                Ok(mut d) => {
                    writeln!(s, "step 0 load").unwrap();
                    battery(&mut d, &mut s, rng.next());
                    // sometimes the unit clause is spelled with a repeated literal (reduce_clause must collapse it)
                    let e1: Edit = vec![(if rng.chance(1, 4) { vec![l, l] } else { vec![l] }, true)];
                    if apply(&mut d, 1, &e1, &mut s, rng.next()) {
                        let e2: Edit = vec![(vec![l], false)];
                        apply(&mut d, 2, &e2, &mut s, rng.next());
                    }
                }
            }
            writeln!(s, "end").unwrap();
            out.write_all(s.as_bytes()).unwrap();
        }
        // chains of unit edits on ONE instance (seeded change C11-r4A: the literal index of the features
        // that a gapped new variable makes optional is read only by a LATER unit edit): a new variable
        // beyond a gap of 1 or 2 skipped features, a unit clause over a skipped feature (either sign),
        // and one over an original feature, the last two in either order
        {
            let gap = 1 + rng.below(2) as i32;
            let top = n + 1 + gap;
            let l1 = if rng.coin() { top } else { -top };
            let skipped = n + 1 + rng.below(gap as u64) as i32;
            let l2 = if rng.coin() { skipped } else { -skipped };
            let olds: Vec<i32> = (1..=n).flat_map(|v| [v, -v]).filter(|&l| has_model_with(&models, l)).collect();
            let mut chain: Vec<i32> = vec![l1, l2];
            if !olds.is_empty() {
                chain.push(olds[rng.below(olds.len() as u64) as usize]);
                if rng.coin() {
                    chain.swap(1, 2);
                }
            }
            if gap == 2 && rng.coin() {
                // the other skipped feature as well
                let other = 2 * n + 3 - skipped;
                chain.push(if rng.coin() { other } else { -other });
            }
            let mut s = String::new();
            writeln!(s, "case c11n-{}-chain C11", k).unwrap();
            writeln!(s, "info {} ; unit chain {}", inp.desc, join(&chain)).unwrap();
            writeln!(s, "mode nnf {}", inp.format).unwrap();
            writeln!(s, "n {}", inp.n).unwrap();
            writeln!(s, "src_models {}", join(&models)).unwrap();
            s.push_str(&file_block(inp.format, &inp.lines));
            match load(&inp.lines, Some(inp.n)) {
                Err(e) => writeln!(s, "impl panic-load {}", e).unwrap(),
                Ok(mut d) => {
                    writeln!(s, "step 0 load").unwrap();
                    battery(&mut d, &mut s, rng.next());
                    for (i, l) in chain.iter().enumerate() {
                        let e: Edit = vec![(vec![*l], true)];
                        if !apply(&mut d, i + 1, &e, &mut s, rng.next()) {
                            break;
                        }
                    }
                }
            }
            writeln!(s, "end").unwrap();
            out.write_all(s.as_bytes()).unwrap();
        }
        k += 1;
    }
}

// ---------------------------------------------------------------------------------------------
// (ii) CNF-loaded models x edit sequences

fn norm(c: &[i32]) -> BTreeSet<i32> {
    c.iter().copied().collect()
}

fn is_taut(c: &[i32]) -> bool {
    c.is_empty() || c.iter().any(|l| c.contains(&-l))
}

/// generator-side copy of the specification (used only to keep histories satisfiable)
fn spec_apply(cl: &[BTreeSet<i32>], n: u32, e: &Edit) -> (Vec<BTreeSet<i32>>, u32) {
    let mut out: Vec<BTreeSet<i32>> = cl.to_vec();
    let mut n2 = n;
    for (c, add) in e {
        if is_taut(c) {
            continue;
        }
        let c = norm(c);
        if !*add {
            out.retain(|x| *x != c);
        }
    }
    for (c, add) in e {
        if is_taut(c) {
            continue;
        }
        let cs = norm(c);
        if *add {
            n2 = n2.max(cs.iter().map(|l| l.unsigned_abs()).max().unwrap());
            if !out.contains(&cs) {
                out.push(cs);
            }
        }
    }
    (out, n2)
}

fn satisfiable(cl: &[BTreeSet<i32>], n: u32) -> bool {
    let cnf: Cnf = cl.iter().map(|c| c.iter().copied().collect()).collect();
    (0..(1u32 << n)).any(|a| sat_assignment(&cnf, a))
}

fn random_clause(rng: &mut Rng, n: u32, allow_new: bool) -> Vec<i32> {
    let w = 1 + rng.below(4) as usize;
    let top = if allow_new && rng.chance(1, 5) { n + 1 + rng.below(2) as u32 } else { n };
    let mut c: Vec<i32> = Vec::new();
    let mut tries = 0;
    while c.len() < w && tries < 20 {
        tries += 1;
        let v = 1 + rng.below(top as u64) as i32;
        if c.iter().any(|l: &i32| l.abs() == v) {
            continue;
        }
        c.push(if rng.coin() { v } else { -v });
    }
    if top > n && !c.iter().any(|l| l.unsigned_abs() > n) {
        // make sure the new variable is mentioned
        let v = top as i32;
        c.push(if rng.coin() { v } else { -v });
    }
    // duplicate literal
    if rng.chance(1, 10) {
        let x = *rng.pick(&c);
        c.push(x);
    }
    // tautological clause
    if rng.chance(1, 14) {
        let x = *rng.pick(&c);
        c.push(-x);
    }
    rng.shuffle(&mut c);
    c
}

fn invert(e: &Edit) -> Edit {
    e.iter().map(|(c, add)| (c.clone(), !*add)).collect()
}

fn next_edit(rng: &mut Rng, cl: &[BTreeSet<i32>], n: u32, prev: Option<&Edit>) -> Edit {
    let roll = rng.below(100);
    if let Some(p) = prev {
        if roll < 22 {
            return invert(p);
        }
    }
    let present: Vec<Vec<i32>> = cl.iter().map(|c| c.iter().copied().collect()).collect();
    let one = |rng: &mut Rng| -> (Vec<i32>, bool) {
        let r = rng.below(100);
        if r < 24 && !present.is_empty() {
            // remove a clause of the current formula (sometimes spelled in another literal order)
            let mut c = rng.pick(&present).clone();
            if rng.coin() {
                rng.shuffle(&mut c);
            }
            (c, false)
        } else if r < 28 {
            // remove a clause that is not there
            (random_clause(rng, n, false), false)
        } else if r < 36 && !present.is_empty() {
            // add a clause that is already there
            let mut c = rng.pick(&present).clone();
            rng.shuffle(&mut c);
            (c, true)
        } else if r < 50 {
            // unit clause
            let v = 1 + rng.below(n as u64) as i32;
            (vec![if rng.coin() { v } else { -v }], true)
        } else {
            (random_clause(rng, n, true), true)
        }
    };
    let mut e = vec![one(rng)];
    if rng.chance(1, 7) {
        e.push(one(rng));
    }
    e
}

struct Start {
    cnf: Cnf,
    n: u32,
    desc: String,
    /// a scripted history instead of random edits
    script: Option<Vec<Edit>>,
}

fn all_clauses(n: u32) -> Vec<Vec<i32>> {
    // every non-empty non-tautological clause over 1..n
    let mut out = Vec::new();
    let total = 3u32.pow(n);
    for code in 1..total {
        let mut c = Vec::new();
        let mut x = code;
        for v in 1..=n as i32 {
            match x % 3 {
                1 => c.push(v),
                2 => c.push(-v),
                _ => {}
            }
            x /= 3;
        }
        out.push(c);
    }
    out
}

fn starts(ctx: &Ctx, rng: &mut Rng) -> Vec<Start> {
    let quick = ctx.tier != "thorough";
    let mut v = Vec::new();
    let maxn = if quick { 3 } else { 4 };
    // (a) one CNF per satisfiable function (cnf_of_table), 0..1 unmentioned extra features
    for n in 1..=maxn {
        let rows = 1u32 << n;
        let total: u64 = (1u64 << rows) - 1;
        let step = if n == 4 { 23 } else { 1 };
        let mut tt = 1u64;
        while tt <= total {
            let extra = if rng.chance(1, 5) { 1 } else { 0 };
            v.push(Start { cnf: cnf_of_table(tt, n), n: n + extra, desc: format!("table n={} tt={} extra={}", n, tt, extra), script: None });
            tt += step;
        }
    }
    // (b) every clause set with at most 2 clauses over <= 3 variables (<= 3 clauses thorough):
    //     covers subsumed clauses, clauses shortened / satisfied by a unit clause, repeated clauses
    for n in 1..=3u32 {
        let cls = all_clauses(n);
        for i in 0..cls.len() {
            for j in i..cls.len() {
                let cnf = if i == j { vec![cls[i].clone()] } else { vec![cls[i].clone(), cls[j].clone()] };
                if !satisfiable(&cnf.iter().map(|c| norm(c)).collect::<Vec<_>>(), n) {
                    continue;
                }
                v.push(Start { cnf, n, desc: format!("clauseset n={} i={} j={}", n, i, j), script: None });
                if !quick && n <= 3 {
                    for k in (j + 1)..cls.len() {
                        if (i + j + k) % 5 != 0 {
                            continue;
                        }
                        let cnf = vec![cls[i].clone(), cls[j].clone(), cls[k].clone()];
                        if satisfiable(&cnf.iter().map(|c| norm(c)).collect::<Vec<_>>(), n) {
                            v.push(Start { cnf, n, desc: format!("clauseset n={} i={} j={} k={}", n, i, j, k), script: None });
                        }
                    }
                }
            }
        }
    }
    // (c) random CNFs up to 10 variables
    for k in 0..ctx.count {
        let n = 2 + rng.below(if quick { 8 } else { 9 }) as u32;
        let m = rng.below(2 * n as u64 + 1) as usize;
        let maxw = 1 + rng.below(4) as usize;
        let extra = if rng.chance(1, 4) { 1 } else { 0 };
        let mut cnf = random_cnf(rng, n, m, maxw);
        cnf.retain(|c| !c.is_empty());
        v.push(Start { cnf, n: n + extra, desc: format!("random#{} n={} m={} w<={} extra={}", k, n, m, maxw, extra), script: None });
    }
    // (d) independent groups {1,2} {3,4} {5,6}: E1 adds or removes a clause linking two groups, E2
    //     edits a third group, E3 is the inverse of E1 (not the latest edit), E4 the inverse of E2
    let lit = |rng: &mut Rng, v: i32| if rng.coin() { v } else { -v };
    for k in 0..(if quick { 24 } else { 96 }) {
        let mut cnf: Cnf = Vec::new();
        for g in 0..3 {
            let (a, b) = (2 * g + 1, 2 * g + 2);
            cnf.push(vec![lit(rng, a), lit(rng, b)]);
            if rng.coin() {
                cnf.push(vec![lit(rng, a), lit(rng, b)]);
            }
        }
        let (la, lb) = (*rng.pick(&[1, 2]), *rng.pick(&[3, 4]));
        let link = vec![lit(rng, la), lit(rng, lb)];
        let other = vec![lit(rng, 5), lit(rng, 6)];
        let link_present = rng.coin();
        if link_present {
            cnf.push(link.clone());
        }
        let other_present = cnf.iter().any(|c| norm(c) == norm(&other));
        let e1: Edit = vec![(link.clone(), !link_present)];
        let e2: Edit = vec![(other.clone(), !other_present)];
        let script = vec![e1.clone(), e2.clone(), invert(&e1), invert(&e2)];
        v.push(Start { cnf, n: 6, desc: format!("groups#{} link={:?} present={} other={:?}", k, link, link_present as u8, other), script: Some(script) });
    }
    v
}

fn scratch_dir() -> PathBuf {
    let base = std::env::var("VERIF_SCRATCH").unwrap_or_else(|_| "/tmp".to_string());
    let p = PathBuf::from(base).join(format!("c11-scratch-{}", std::process::id()));
    std::fs::create_dir_all(&p).unwrap();
    p
}

fn run_cnf(ctx: &Ctx, rng: &mut Rng, out: &mut dyn Write) {
    let quick = ctx.tier != "thorough";
    let max_steps = if quick { 3 } else { 4 };
    cnfc::register();
    let dir = scratch_dir();
    let path = dir.join("start.cnf");
    let sts = starts(ctx, rng);
    let mut k = 0usize;
    for st in sts.iter() {
        let cl0: Vec<BTreeSet<i32>> = {
            let mut v: Vec<BTreeSet<i32>> = Vec::new();
            for c in &st.cnf {
                if is_taut(c) {
                    continue;
                }
                let c = norm(c);
                if !v.contains(&c) {
                    v.push(c);
                }
            }
            v
        };
        if !satisfiable(&cl0, st.n) {
            continue;
        }
        let reps = if st.n <= 4 { if quick { 2 } else { 3 } } else { 1 };
        for _ in 0..reps {
            let mut s = String::new();
            writeln!(s, "case c11c-{} C11", k).unwrap();
            k += 1;
            writeln!(s, "info {}", st.desc).unwrap();
            writeln!(s, "mode cnf").unwrap();
            writeln!(s, "n {}", st.n).unwrap();
            let txt: Vec<String> = st.cnf.iter().map(|c| join(c)).collect();
            writeln!(s, "src_cnf {}", txt.join(" ; ")).unwrap();
            cnfc::write_dimacs(&path, &st.cnf, st.n);
            let p2 = path.clone();
            match guarded(move || Ddnnf::from_file(&p2, None)) {
                Err(e) => writeln!(s, "impl panic-load {}", e).unwrap(),
                Ok(mut d) => {
                    writeln!(s, "step 0 load").unwrap();
                    battery(&mut d, &mut s, rng.next());
                    let mut cl = cl0.clone();
                    let mut n = st.n;
                    let mut prev: Option<Edit> = None;
                    let steps = match &st.script {
                        Some(sc) => sc.len(),
                        None => 1 + rng.below(max_steps as u64) as usize,
                    };
                    let mut done = 0;
                    let mut tries = 0;
                    while done < steps && tries < 40 {
                        tries += 1;
                        let e = match &st.script {
                            Some(sc) if done < sc.len() => sc[done].clone(),
                            Some(_) => break,
                            None => next_edit(rng, &cl, n, prev.as_ref()),
                        };
                        let (cl2, n2) = spec_apply(&cl, n, &e);
                        if n2 > 12 || !satisfiable(&cl2, n2) {
                            if st.script.is_some() {
                                break;
                            }
                            continue;
                        }
                        // an inverse edit that introduces nothing is judged against both readings
                        done += 1;
                        if !apply(&mut d, done, &e, &mut s, rng.next()) {
                            break;
                        }
                        cl = cl2;
                        n = n2;
                        prev = Some(e);
                    }
                }
            }
            writeln!(s, "end").unwrap();
            out.write_all(s.as_bytes()).unwrap();
        }
    }
    let _ = std::fs::remove_dir_all(&dir);
}

// ---------------------------------------------------------------------------------------------
// reduce_clause directly

fn run_reduce(ctx: &Ctx, rng: &mut Rng, out: &mut dyn Write) {
    let mut s = String::new();
    writeln!(s, "case c11r-0 C11").unwrap();
    writeln!(s, "mode rc").unwrap();
    let mut cases: Vec<(Vec<i32>, Vec<i32>)> = vec![
        (vec![], vec![]),
        (vec![], vec![1]),
        (vec![1], vec![]),
        (vec![1, 1], vec![]),
        (vec![1, -1], vec![]),
        (vec![-1, 1], vec![]),
        (vec![1, 2, -1], vec![]),
        (vec![1, 2], vec![-1]),
        (vec![1, 2], vec![-1, -2]),
        (vec![1, 2], vec![2]),
        (vec![1, 2], vec![-1, 2]),
        (vec![-2, 1], vec![-1, 2]),
        (vec![0], vec![]),
        (vec![0, 0], vec![]),
    ];
    let m = if ctx.tier == "thorough" { 4000 } else { 600 };
    for _ in 0..m {
        let len = rng.below(6) as usize;
        let c: Vec<i32> = (0..len).map(|_| rng.range(-4, 4) as i32).collect();
        let dl = rng.below(4) as usize;
        let dset: Vec<i32> = (0..dl).map(|_| { let v = rng.range(1, 4) as i32; if rng.coin() { v } else { -v } }).collect();
        cases.push((c, dset));
    }
    for (c, dset) in cases {
        let dh: HashSet<i32> = dset.iter().copied().collect();
        let r = guarded(|| reduce_clause(&c, &dh));
        writeln!(s, "rc {} | {} => {}", join(&c), join(&dset), fmt_reduced(&r)).unwrap();
    }
    writeln!(s, "end").unwrap();
    out.write_all(s.as_bytes()).unwrap();
}

/// `c11h`: replays hand-written histories (one per line of the file named by C11_HISTORIES):
///   cnf <n> : <clause> ; <clause> ... :: add 1 2 ; rmv 3 :: add 4 ...
///   d4 <n> : <d4 line> ; <d4 line> ... :: add 1 :: rmv 1
///   c2d <n> : <c2d line> ; ... :: ...
fn run_histories(out: &mut dyn Write) {
    let file = std::env::var("C11_HISTORIES").expect("C11_HISTORIES=<file>");
    let text = std::fs::read_to_string(&file).expect("cannot read the history file");
    replay_histories("c11h", &text, out);
}

/// The minimal histories of the recorded findings (KNOWN_FINDINGS.txt, property C11) and their
/// control histories: replayed on every run so that each finding is re-established (or seen to
/// be gone) independently of the random part.
const CORPUS: &str = "\
# F27 (was K3) new variable on an nnf-loaded model (c2d): unit path, conjoined at a new and root
c2d 1 : nnf 5 4 1 ; A 0 ; L 1 ; L -1 ; O 1 2 1 2 ; A 2 0 3 :: add 2
# K4 dead branch after a unit edit: the core under-reported (repaired by F22; kept as a regression case)
d4 3 : o 1 0 ; o 2 0 ; t 3 0 ; f 4 0 ; 1 3 1 2 3 0 ; 1 2 -1 0 ; 2 4 2 0 ; 2 3 -2 3 0 :: add 2
# K8 removal on the unit-propagated stored clause list
cnf 4 : -4 ; -4 3 ; -3 -1 ; -2 :: rmv -4
cnf 2 : 1 2 :: add -1 :: rmv -1
# F27 / F28 (was K20) nnf-loaded d4 model with root = node 0: unit path; a non-unit clause is refused
d4 1 : o 1 0 ; t 2 0 ; 1 2 -1 0 :: add 2
d4 1 : o 1 0 ; t 2 0 ; 1 2 -1 0 :: add -3 :: add 5
# K21 removal on an nnf-loaded model: refused (Error) since F28, the previous answers are not restored
d4 1 : o 1 0 ; t 2 0 ; 1 2 -1 0 :: add -1 :: rmv -1
# F25 (was K22) an Undo restores the stored clause list
cnf 2 : 1 2 :: add 1 -2 :: rmv 1 -2 :: add -1 -2
# F14 (was K23) two different clauses removed in one edit: holds since the repair
cnf 2 : -1 2 ; -1 -2 :: rmv -1 2 ; rmv -2 -1
# K24 sub-DAG replacement keeps a literal forced that the removed clause forced
cnf 3 : -2 3 ; 1 -2 -3 ; 1 2 3 ; 2 -3 :: rmv 3 -2
# F15 (was K25) partial inverse: no longer answered from the undo cache
cnf 2 : 1 ; 2 :: add 1 3 ; rmv 1 :: rmv 1 3
# F16 (was K26) unit add + removal: general path, the removal is applied
cnf 2 : -1 :: add 2 ; rmv -1
# F24 (was K27) clause added to a CNF-loaded model without stored clauses: the edited CNF is compiled
cnf 2 : :: add 1 2
cnf 3 : :: rmv 3 -2 ; add 3
# K28 unconstrained feature mentioned by a subsumed clause + sub-DAG replacement
cnf 2 : 2 -1 ; 1 -2 :: add 3 2 -1 :: add 1 -2
# F27 (was K29) unit clause over a new variable: unit path
cnf 3 : -1 2 3 :: add 4
cnf 3 : -1 2 3 :: add 5
# K30 sub-DAG replacement after a unit edit (first history: right since F26; control: the unit clause
# in the loaded CNF; then the two histories that still fail)
cnf 3 : -2 -3 ; 1 2 3 :: add -2 :: add -3 -2
cnf 3 : -2 -3 ; 1 2 3 ; -2 :: add -3 -2
cnf 4 : 2 -1 ; 3 2 :: add 4 :: rmv 2 3
cnf 3 : -1 2 3 :: add -3 :: add -2 ; add -2
# F26 (was K31) cyclic graph after unit edits: no panic any more (what is left is K8)
cnf 3 : -1 2 ; -1 -2 -3 :: add 1 :: add -3 :: rmv -3
# F26 (was K32) second unit edit through a recycled node index
cnf 4 : -1 3 ; 1 -2 -3 :: rmv -1 3 :: add 4 :: rmv 1 -3 -2 :: add 4
# F25 (was K33) panic in get_literals after an Undo
cnf 3 : -1 2 3 ; -3 ; -1 -2 -3 :: add 1 3 2 :: rmv 1 3 2 :: add 3 -2
# F17 (was K34) inverse of an older edit after a unit edit: not answered Undo any more
cnf 3 : -1 3 ; 1 2 3 :: add 2 3 :: add -1 :: rmv 2 3
# K37 removal on the unit-propagated stored list (K8) that ends in a panic: the stale derived unit 1
# contradicts the added unit clause, the stored list is unsatisfiable although the formula is not
cnf 2 : 2 ; 1 -2 :: rmv 1 -2 ; add -1
cnf 2 : 2 ; 1 -2 :: rmv 1 -2 ; add -1 ; add 2
# F23 (was K38) Recompile adjusted the stored clause list twice: a clause shortened to a removed clause was lost
cnf 2 : -1 -2 :: rmv -1 ; add 2
cnf 2 : -1 -2 :: rmv -1 ; add 2 ; add 1 2
cnf 3 : -1 -2 -3 ; -1 -2 :: rmv -1 -2 ; add 3
# controls that hold: unit edit and its effect, recompile, exact inverse, tautology, duplicate
cnf 3 : 1 2 ; -1 3 :: add 2
cnf 3 : 1 2 ; -1 3 :: add -2 -3 :: rmv -2 -3
cnf 3 : 1 2 ; -1 3 :: add 1 -1 :: add 1 2 2 :: add 4 -3
";

fn replay_histories(prefix: &str, text: &str, out: &mut dyn Write) {
    cnfc::register();
    let dir = scratch_dir();
    let path = dir.join("start.cnf");
    for (k, line) in text.lines().enumerate() {
        let line = line.trim();
        if line.is_empty() || line.starts_with('#') {
            continue;
        }
        let parts: Vec<&str> = line.split("::").collect();
        let head: Vec<&str> = parts[0].splitn(2, ':').collect();
        let ht: Vec<&str> = head[0].split_whitespace().collect();
        let (fmt, n) = (ht[0], ht[1].parse::<u32>().unwrap());
        let body: Vec<String> = head.get(1).unwrap_or(&"").split(';').map(|x| x.trim().to_string()).filter(|x| !x.is_empty()).collect();
        let mut s = String::new();
        writeln!(s, "case {}-{} C11", prefix, k).unwrap();
        writeln!(s, "info {}", line).unwrap();
        let loaded = if fmt == "cnf" {
            let cnf: Cnf = body.iter().map(|c| c.split_whitespace().map(|x| x.parse().unwrap()).collect()).collect();
            writeln!(s, "mode cnf").unwrap();
            writeln!(s, "n {}", n).unwrap();
            writeln!(s, "src_cnf {}", body.join(" ; ")).unwrap();
            cnfc::write_dimacs(&path, &cnf, n);
            let p2 = path.clone();
            guarded(move || Ddnnf::from_file(&p2, None))
        } else {
            writeln!(s, "mode nnf {}", fmt).unwrap();
            writeln!(s, "n {}", n).unwrap();
            let r = load(&body, Some(n));
            if let Ok(d) = &r {
                // the truth table of the loaded vector stands in for the source formula
                let mut ms = Vec::new();
                let mut d2 = d.clone();
                for a in 0..(1u32 << n) {
                    if d2.execute_query(&mask_to_cfg(a, n)) > BigInt::zero() {
                        ms.push(a);
                    }
                }
                writeln!(s, "src_models {}", join(&ms)).unwrap();
            }
            s.push_str(&file_block(fmt, &body));
            r
        };
        match loaded {
            Err(e) => writeln!(s, "impl panic-load {}", e).unwrap(),
            Ok(mut d) => {
                writeln!(s, "step 0 load").unwrap();
                battery(&mut d, &mut s, 7);
                for (i, et) in parts.iter().skip(1).enumerate() {
                    let e: Edit = et
                        .split(';')
                        .map(|c| {
                            let t: Vec<&str> = c.split_whitespace().collect();
                            (t[1..].iter().map(|x| x.parse().unwrap()).collect(), t[0] == "add")
                        })
                        .collect();
                    if !apply(&mut d, i + 1, &e, &mut s, 11 + i as u64) {
                        break;
                    }
                }
            }
        }
        writeln!(s, "end").unwrap();
        out.write_all(s.as_bytes()).unwrap();
    }
    let _ = std::fs::remove_dir_all(&dir);
}

static PANIC_AT: std::sync::Mutex<String> = std::sync::Mutex::new(String::new());

/// panic hook of this kind: silent, remembers where the panic was raised
fn install_hook() {
    std::panic::set_hook(Box::new(|info| {
        if let Some(l) = info.location() {
            let f = l.file();
            let f = f.rsplit("/ddnnife/").next().unwrap_or(f);
            *PANIC_AT.lock().unwrap() = format!("{}:{}", f, l.line());
        }
    }));
}

pub fn run(kind: &str, ctx: &Ctx, out: &mut dyn Write) {
    install_hook();
    if kind == "c11h" {
        return run_histories(out);
    }
    let mut rng = Rng::new(ctx.seed ^ 0x5eed_0011);
    let which = std::env::var("C11_PART").unwrap_or_default();
    if which.is_empty() || which == "corpus" {
        replay_histories("c11k", CORPUS, out);
    }
    if which.is_empty() || which == "rc" {
        run_reduce(ctx, &mut rng, out);
    }
    if which.is_empty() || which == "nnf" {
        let mut r = Rng::new(ctx.seed ^ 0x5eed_1011);
        run_nnf(ctx, &mut r, out);
    }
    if which.is_empty() || which == "cnf" {
        let mut r = Rng::new(ctx.seed ^ 0x5eed_2011);
        run_cnf(ctx, &mut r, out);
    }
}
