//! C12: clause-update / undo-update / save-cnf on models loaded from a CNF (stand-in compiler, H1).
//!
//! A case is one start CNF and a TREE of histories below one first command, written in DFS
//! pre-order:   `s <depth> <command>`  applies the command to the state reached by the closest
//! preceding record of depth-1 (the states are clones of the Ddnnf).  After every command the
//! record holds the answer (`a ok | a err <text> | a panic <text>`) and the observation
//!   o n <number_of_variables>          o count <count>         o sat <sat>      o core <core>
//!   o cl <count a 1> <count a -1> <count a 2> ..   o beyond <code of `count a n+1`>
//!   o save <ok|err text>   sv <line> ; <line> ..  (text written by save-cnf p <scratch file>)
//!   ckt <node> ; <node> ..             (the flattened live d-DNNF, for the compiler contract)
//! Exploration stops below a panic.  Every output of the stand-in compiler is validated here
//! against the truth table of the CNF it was given (`impl standin <validated> <bad>`).
use crate::cnfc;
use crate::common::*;
use crate::gen::{cnf_of_table, models, random_cnf, sat_assignment, Cnf};
use crate::rng::Rng;
use ddnnife::Ddnnf;
use std::collections::{BTreeSet, HashMap};
use std::fmt::Write as _;
use std::io::Write;
use std::path::{Path, PathBuf};
use std::sync::Mutex;

pub const KINDS: &[&str] = &["c12"];

// ---------------------------------------------------------------------------------------------
// validated stand-in compiler

static STANDIN_LOG: Mutex<(u64, u64, Vec<String>)> = Mutex::new((0, 0, Vec::new()));

/// value of node 1 of a d4 text under the assignment mask (bit v-1 = feature v)
fn eval_d4(lines: &[String], mask: u32) -> Option<bool> {
    #[derive(Clone, Copy, PartialEq)]
    enum K {
        Or,
        And,
        T,
        F,
    }
    let mut kinds: Vec<K> = Vec::new();
    let mut edges: Vec<Vec<(usize, Vec<i32>)>> = Vec::new();
    for l in lines {
        let t: Vec<&str> = l.split_whitespace().collect();
        if t.is_empty() {
            continue;
        }
        match t[0] {
            "o" | "a" | "t" | "f" => {
                let id: usize = t[1].parse().ok()?;
                if id != kinds.len() + 1 {
                    return None;
                }
                kinds.push(match t[0] {
                    "o" => K::Or,
                    "a" => K::And,
                    "t" => K::T,
                    _ => K::F,
                });
                edges.push(Vec::new());
            }
            _ => {
                let nums: Vec<i64> = t.iter().map(|x| x.parse().ok()).collect::<Option<Vec<i64>>>()?;
                if nums.len() < 3 || *nums.last().unwrap() != 0 {
                    return None;
                }
                let from = nums[0] as usize;
                let to = nums[1] as usize;
                if from == 0 || to == 0 || from > kinds.len() || to > kinds.len() {
                    return None;
                }
                let lits: Vec<i32> = nums[2..nums.len() - 1].iter().map(|&x| x as i32).collect();
                edges[from - 1].push((to - 1, lits));
            }
        }
    }
    if kinds.is_empty() {
        return None;
    }
    fn lit(mask: u32, l: i32) -> bool {
        let b = (mask >> (l.unsigned_abs() - 1)) & 1 == 1;
        if l > 0 {
            b
        } else {
            !b
        }
    }
    fn go(i: usize, kinds: &[K], edges: &[Vec<(usize, Vec<i32>)>], mask: u32, memo: &mut HashMap<usize, bool>, depth: usize) -> bool {
        if let Some(&v) = memo.get(&i) {
            return v;
        }
        if depth > 10_000 {
            return false;
        }
        let v = match kinds[i] {
            K::T => true,
            K::F => false,
            K::Or => edges[i].iter().any(|(c, ls)| ls.iter().all(|&l| lit(mask, l)) && go(*c, kinds, edges, mask, memo, depth + 1)),
            K::And => edges[i].iter().all(|(c, ls)| ls.iter().all(|&l| lit(mask, l)) && go(*c, kinds, edges, mask, memo, depth + 1)),
        };
        memo.insert(i, v);
        v
    }
    let mut memo = HashMap::new();
    Some(go(0, &kinds, &edges, mask, &mut memo, 0))
}

/// the registered compiler: the stand-in of cnfc.rs, every output checked against the truth
/// table of the CNF file it was given
fn checked_standin(path: &Path) -> (Vec<String>, u32) {
    let (lines, total) = cnfc::standin(path);
    let (cnf, _) = cnfc::read_dimacs(path);
    let mut ok = total <= 16;
    if ok {
        for mask in 0..(1u32 << total) {
            match eval_d4(&lines, mask) {
                Some(v) if v == sat_assignment(&cnf, mask) => {}
                _ => {
                    ok = false;
                    break;
                }
            }
        }
    }
    let mut log = STANDIN_LOG.lock().unwrap();
    log.0 += 1;
    if !ok {
        log.1 += 1;
        if log.2.len() < 3 {
            log.2.push(format!("{:?} n={} -> {:?}", cnf, total, lines));
        }
    }
    (lines, total)
}

// ---------------------------------------------------------------------------------------------

struct Env {
    start: PathBuf,
    save: PathBuf,
    steps: u64,
}

fn scratch() -> PathBuf {
    let dir = Path::new(env!("CARGO_MANIFEST_DIR")).join("../.cache/scratch");
    std::fs::create_dir_all(&dir).unwrap();
    dir.canonicalize().unwrap()
}

fn answer_line(r: Result<String, String>) -> String {
    match r {
        Ok(s) if s.is_empty() => "a ok".to_string(),
        Ok(s) => format!("a err {}", s),
        Err(e) => format!("a panic {}", e),
    }
}

fn ask(d: &mut Ddnnf, msg: &str) -> String {
    match guarded(|| d.handle_stream_msg(msg)) {
        Ok(s) if s.is_empty() => "-".to_string(),
        Ok(s) => s,
        Err(e) => format!("PANIC {}", e),
    }
}

fn circuit_line(d: &Ddnnf) -> String {
    let dump = dump_circuit(d);
    let nodes: Vec<&str> = dump.lines().skip(1).collect();
    format!("ckt {}", nodes.join(" ; "))
}

/// everything the property lets us see of the current state
fn observe(d: &mut Ddnnf, env: &Env, s: &mut String) {
    let n = d.number_of_variables;
    writeln!(s, "o n {}", n).unwrap();
    writeln!(s, "o count {}", ask(d, "count")).unwrap();
    let mut cl = Vec::new();
    for v in 1..=n as i32 {
        cl.push(ask(d, &format!("count a {}", v)).replace(' ', "_"));
        cl.push(ask(d, &format!("count a {}", -v)).replace(' ', "_"));
    }
    writeln!(s, "o cl {}", cl.join(" ")).unwrap();
    writeln!(s, "o sat {}", ask(d, "sat")).unwrap();
    writeln!(s, "o core {}", ask(d, "core")).unwrap();
    let beyond = ask(d, &format!("count a {}", n + 1));
    writeln!(s, "o beyond {}", beyond.split_whitespace().next().unwrap_or("-")).unwrap();
    let _ = std::fs::remove_file(&env.save);
    let sv = ask(d, &format!("save-cnf p {}", env.save.display()));
    if sv == "-" {
        writeln!(s, "o save ok").unwrap();
        let text = std::fs::read_to_string(&env.save).unwrap_or_default();
        let lines: Vec<&str> = text.lines().collect();
        writeln!(s, "sv {}", lines.join(" ; ")).unwrap();
    } else {
        writeln!(s, "o save err {}", sv).unwrap();
        writeln!(s, "sv").unwrap();
    }
    writeln!(s, "{}", circuit_line(d)).unwrap();
    cache_line(d, s);
}

/// the private bookkeeping of the clause cache, when /repo offers hook H7:
///   cache <total|-> <old_total|-> <old_state features|-> | <edit_add clauses ;..> | <edit_rmv clauses ;..>
#[cfg(has_h7)]
fn cache_line(d: &Ddnnf, s: &mut String) {
    if let Some(v) = d.verif_clause_cache_view() {
        let o = |x: Option<u32>| x.map(|v| v.to_string()).unwrap_or("-".to_string());
        let l = |cs: &Vec<Vec<i32>>| cs.iter().map(|c| join(c)).collect::<Vec<_>>().join(" ; ");
        writeln!(
            s,
            "cache {} {} {} | {} | {}",
            o(v.total_features),
            o(v.old_total_features),
            o(v.old_state_features),
            l(&v.edit_add),
            l(&v.edit_rmv)
        )
        .unwrap();
    }
}
#[cfg(not(has_h7))]
fn cache_line(_d: &Ddnnf, _s: &mut String) {}

fn parse_saved(rec: &str) -> Option<(u32, Vec<Vec<i32>>)> {
    // the `sv` line of a record
    let line = rec.lines().find(|l| l.starts_with("sv "))?;
    let mut n = 0;
    let mut cls = Vec::new();
    for part in line[3..].split(" ; ") {
        let t: Vec<&str> = part.split_whitespace().collect();
        if t.len() == 4 && t[0] == "p" {
            n = t[2].parse().ok()?;
        } else if !t.is_empty() {
            let mut c: Vec<i32> = t.iter().map(|x| x.parse().ok()).collect::<Option<Vec<i32>>>()?;
            c.pop();
            cls.push(c);
        }
    }
    Some((n, cls))
}

fn fmt_clause(c: &[i32]) -> String {
    join(c)
}

fn fmt_clauses(cs: &[Vec<i32>]) -> String {
    cs.iter().map(|c| fmt_clause(c)).collect::<Vec<_>>().join(" 0 ")
}

/// the command alphabet for a state with stored set `cur` over `n` features
/// level 0 = full alphabet, 1 = small, 2 = tiny (for the deepest trees)
fn alphabet(n: u32, cur: &[Vec<i32>], rng: &mut Rng, level: u8) -> Vec<String> {
    let small = level >= 1;
    let tiny = level >= 2;
    let set: BTreeSet<BTreeSet<i32>> = cur.iter().map(|c| c.iter().copied().collect()).collect();
    let present = |c: &[i32]| set.contains(&c.iter().copied().collect::<BTreeSet<i32>>());
    // candidate clauses over 1..n, units and binary clauses first
    let mut cands: Vec<Vec<i32>> = Vec::new();
    for v in 1..=n as i32 {
        cands.push(vec![-v]);
        cands.push(vec![v]);
    }
    for a in 1..=n as i32 {
        for b in (a + 1)..=n as i32 {
            for (sa, sb) in [(1, 1), (-1, 1), (1, -1), (-1, -1)] {
                cands.push(vec![sa * a, sb * b]);
            }
        }
    }
    rng.shuffle(&mut cands);
    let absent: Vec<Vec<i32>> = cands.iter().filter(|c| !present(c)).cloned().collect();
    let mut al: Vec<String> = Vec::new();
    let n1 = n + 1;
    al.push("undo-update".to_string());
    if let Some(c) = absent.first() {
        al.push(format!("clause-update add {}", fmt_clause(c)));
        // the same clause twice in one add list
        al.push(format!("clause-update add {} 0 {}", fmt_clause(c), fmt_clause(c)));
        // removal of an absent clause
        al.push(format!("clause-update rmv {}", fmt_clause(c)));
    }
    if let (Some(c), false) = (absent.get(1), tiny) {
        // literal order and a repeated literal do not matter: the clause is a set
        let mut w: Vec<i32> = c.iter().rev().copied().collect();
        w.push(c[0]);
        al.push(format!("clause-update add {} 0", fmt_clause(&w)));
    }
    if let Some(c) = cur.first() {
        al.push(format!("clause-update add {}", fmt_clause(c))); // already present
        al.push(format!("clause-update rmv {}", fmt_clause(c)));
        if !tiny {
            al.push(format!("clause-update rmv {} add {}", fmt_clause(c), fmt_clause(c))); // remove and re-add
            al.push(format!("clause-update rmv {} 0 {}", fmt_clause(c), fmt_clause(c))); // twice: rejected
        }
        if let Some(a) = absent.first() {
            // a present and an absent clause: rejected, the first removal must be rolled back
            al.push(format!("clause-update rmv {} 0 {}", fmt_clause(c), fmt_clause(a)));
            al.push(format!("clause-update add {} rmv {}", fmt_clause(a), fmt_clause(c)));
        }
    }
    if cur.len() >= 2 && !tiny {
        let c = cur.last().unwrap();
        al.push(format!("clause-update rmv {}", fmt_clause(c)));
        if !small {
            al.push(format!("clause-update rmv {}", fmt_clauses(cur))); // everything
        }
    }
    // feature count
    al.push(format!("clause-update t {}", n1));
    if !tiny {
        al.push(format!("clause-update t {} add {} 1", n1, n1));
    }
    if n >= 2 {
        al.push(format!("clause-update t {}", n - 1)); // rejected iff feature n is in use
        let using: Vec<Vec<i32>> = cur.iter().filter(|c| c.iter().any(|l| l.unsigned_abs() == n)).cloned().collect();
        if !using.is_empty() && !small {
            // shrinking together with the removal of the clauses in the way: still rejected
            al.push(format!("clause-update t {} rmv {}", n - 1, fmt_clauses(&using)));
        }
    }
    al.push(format!("clause-update add {}", n1)); // literal above the feature count
    if !small {
        al.push("clause-update t 0".to_string());
        al.push("clause-update".to_string()); // empty update: accepted, nothing changes
        al.push(format!("clause-update add 1 -1")); // tautology
    }
    // makes the formula unsatisfiable
    al.push(format!("clause-update add {} 0 {}", n.max(1), -(n.max(1) as i32)));
    al.dedup();
    let mut seen = BTreeSet::new();
    al.retain(|x| seen.insert(x.clone()));
    al
}

fn record(depth: usize, cmd: &str, d: &mut Ddnnf, env: &mut Env, ans: Option<Result<String, String>>) -> (String, bool) {
    let mut s = String::new();
    writeln!(s, "s {} {}", depth, cmd).unwrap();
    let mut panicked = false;
    if let Some(a) = ans {
        panicked = a.is_err();
        writeln!(s, "{}", answer_line(a)).unwrap();
    }
    observe(d, env, &mut s);
    env.steps += 1;
    (s, panicked)
}

fn dfs(d: &Ddnnf, depth: usize, maxdepth: usize, al: &[String], env: &mut Env, out: &mut String) {
    if depth > maxdepth {
        return;
    }
    for cmd in al {
        let mut child = d.clone();
        let ans = guarded(|| child.handle_stream_msg(cmd));
        let (rec, panicked) = record(depth, cmd, &mut child, env, Some(ans));
        out.push_str(&rec);
        if !panicked {
            dfs(&child, depth + 1, maxdepth, al, env, out);
        }
    }
}

fn standin_snapshot() -> (u64, u64) {
    let l = STANDIN_LOG.lock().unwrap();
    (l.0, l.1)
}

fn header(id: &str, info: &str, n: u32, cnf: &Cnf) -> String {
    let mut s = String::new();
    writeln!(s, "case {} C12", id).unwrap();
    writeln!(s, "info {}", info).unwrap();
    writeln!(s, "n {}", n).unwrap();
    let cl: Vec<String> = cnf.iter().map(|c| join(c)).collect();
    writeln!(s, "start {}", cl.join(" ; ")).unwrap();
    s
}

fn footer(s: &mut String, before: (u64, u64)) {
    let after = standin_snapshot();
    writeln!(s, "impl standin {} {}", after.0 - before.0, after.1 - before.1).unwrap();
    let l = STANDIN_LOG.lock().unwrap();
    for m in l.2.iter() {
        writeln!(s, "standinbad {}", m).unwrap();
    }
    writeln!(s, "end").unwrap();
}

fn load(env: &Env, cnf: &Cnf, n: u32) -> Result<Ddnnf, String> {
    cnfc::write_dimacs(&env.start, cnf, n);
    let p = env.start.clone();
    guarded(move || Ddnnf::from_file(&p, None))
}

/// exhaustive histories up to `depth` over the alphabet of the start state
fn exhaustive(idbase: &str, cnf: &Cnf, n: u32, depth: usize, level: u8, env: &mut Env, rng: &mut Rng, out: &mut dyn Write) {
    let before = standin_snapshot();
    let mut d = match load(env, cnf, n) {
        Ok(d) => d,
        Err(e) => {
            let mut s = header(&format!("{}-load", idbase), "load", n, cnf);
            writeln!(s, "s 0 load").unwrap();
            writeln!(s, "a panic {}", e).unwrap();
            footer(&mut s, before);
            out.write_all(s.as_bytes()).unwrap();
            return;
        }
    };
    let (rec0, _) = record(0, "load", &mut d, env, None);
    let saved = parse_saved(&rec0);
    let nocache = saved.is_none();
    let (n_now, cur) = saved.unwrap_or((n, Vec::new()));
    let al = alphabet(n_now, &cur, rng, level);
    if nocache {
        // no clause cache at all although the model was loaded from a CNF (K14, repaired by F9:
        // cannot happen any more; kept as a detector): a single case with every command once
        let mut s = header(&format!("{}-nocache", idbase), &format!("exhaustive depth=1 letters={}", al.len()), n, cnf);
        s.push_str(&rec0);
        dfs(&d, 1, 1, &al, env, &mut s);
        footer(&mut s, before);
        out.write_all(s.as_bytes()).unwrap();
        return;
    }
    for (j, first) in al.iter().enumerate() {
        let before = if j == 0 { before } else { standin_snapshot() };
        let mut s = header(
            &format!("{}-{}", idbase, j),
            &format!("exhaustive depth={} letters={} first=[{}]", depth, al.len(), first),
            n,
            cnf,
        );
        s.push_str(&rec0);
        let mut child = d.clone();
        let ans = guarded(|| child.handle_stream_msg(first));
        let (rec, panicked) = record(1, first, &mut child, env, Some(ans));
        s.push_str(&rec);
        if !panicked {
            dfs(&child, 2, depth, &al, env, &mut s);
        }
        footer(&mut s, before);
        out.write_all(s.as_bytes()).unwrap();
    }
}

/// one long random history; the letters are drawn from the alphabet of the CURRENT state
fn random_history(id: &str, cnf: &Cnf, n: u32, len: usize, env: &mut Env, rng: &mut Rng, out: &mut dyn Write) {
    let before = standin_snapshot();
    let mut d = match load(env, cnf, n) {
        Ok(d) => d,
        Err(_) => return,
    };
    let mut s = header(id, &format!("random len={}", len), n, cnf);
    let (rec0, _) = record(0, "load", &mut d, env, None);
    s.push_str(&rec0);
    let mut last = rec0;
    for k in 1..=len {
        let (n_now, cur) = match parse_saved(&last) {
            Some(x) => x,
            None => break,
        };
        let mut al = alphabet(n_now, &cur, rng, 0);
        // the last letter makes the formula unsatisfiable and ends the history: keep it rare
        let unsat_letter = al.pop().unwrap();
        // a random wider clause now and then
        if n_now >= 3 {
            let c = random_cnf(rng, n_now, 1, 3).pop().unwrap();
            if !c.is_empty() {
                al.push(format!("clause-update add {}", fmt_clause(&c)));
            }
        }
        let cmd = if rng.chance(1, 40) { unsat_letter } else { rng.pick(&al).clone() };
        // undo more often than one letter in twenty
        let cmd = if rng.chance(1, 4) { "undo-update".to_string() } else { cmd };
        let ans = guarded(|| d.handle_stream_msg(&cmd));
        let (rec, panicked) = record(k, &cmd, &mut d, env, Some(ans));
        s.push_str(&rec);
        last = rec;
        if panicked {
            break;
        }
    }
    footer(&mut s, before);
    out.write_all(s.as_bytes()).unwrap();
}

fn satisfiable(cnf: &Cnf, n: u32) -> bool {
    !models(cnf, n).is_empty()
}

pub fn run(_kind: &str, ctx: &Ctx, out: &mut dyn Write) {
    cnfc::register();
    ddnnife::parser::verif::set_cnf_compiler(Some(checked_standin));
    let mut rng = Rng::new(ctx.seed ^ 0x5eed_0012);
    let quick = ctx.tier != "thorough";
    let dir = scratch();
    let pid = std::process::id();
    let mut env = Env {
        start: dir.join(format!("c12-{}-start.cnf", pid)),
        save: dir.join(format!("c12-{}-save.cnf", pid)),
        steps: 0,
    };

    // ---- start CNFs on <= 3 variables
    // (a) hand-picked: the F8 example, units (simplify_clauses changes the stored set), a
    //     clause subsumed by a unit, duplicates / permuted literals in the file, a tautology next
    //     to a real clause, free features, an empty stored set (no clause line / a tautology only:
    //     ordinary starts since repair F9, `p cnf n 0` is saved and updates start from the empty set)
    let fixed: Vec<(Cnf, u32)> = vec![
        (vec![vec![1, 2], vec![-1, 3]], 3),
        (vec![vec![1], vec![1, 2], vec![-1, 3]], 3),
        (vec![vec![2, 1], vec![1, 2], vec![3, -3], vec![-2, 3]], 3),
        (vec![vec![1, 2]], 3),
        (vec![vec![-1], vec![1, 2, 3]], 3),
        (vec![vec![1, -2]], 2),
        (vec![vec![1]], 1),
        (vec![], 2),
        (vec![vec![1, -1]], 2),
    ];
    // (b) every satisfiable Boolean function over 1..n, n <= 3, as a CNF (cnf_of_table)
    let mut tables: Vec<(Cnf, u32)> = Vec::new();
    for n in 1..=3u32 {
        let rows = 1u32 << n;
        let all: u64 = if rows == 64 { u64::MAX } else { (1u64 << rows) - 1 };
        for tt in 1..=all {
            // the constant-true function is the CNF without clauses (empty stored set)
            tables.push((cnf_of_table(tt, n), n));
        }
    }
    let mut k = 0;
    for (cnf, n) in fixed.iter() {
        if !satisfiable(cnf, *n) {
            continue;
        }
        if quick {
            // every history of length <= 3 over the full alphabet
            exhaustive(&format!("c12-f{}", k), cnf, *n, 3, 0, &mut env, &mut rng, out);
        } else if k == 0 {
            // length <= 5 over the tiny alphabet, and length <= 4 over the full one
            exhaustive(&format!("c12-f{}x5", k), cnf, *n, 5, 2, &mut env, &mut rng, out);
            exhaustive(&format!("c12-f{}", k), cnf, *n, 4, 0, &mut env, &mut rng, out);
        } else {
            exhaustive(&format!("c12-f{}", k), cnf, *n, 4, 1, &mut env, &mut rng, out);
        }
        k += 1;
    }
    // every function: length <= 2 (quick) / 3 for a seeded half, 2 for the rest (thorough);
    // a seeded sample one level deeper
    let mut order: Vec<usize> = (0..tables.len()).collect();
    rng.shuffle(&mut order);
    let deeper = if quick { 10 } else { 4 };
    for (pos, &i) in order.iter().enumerate() {
        let (cnf, n) = &tables[i];
        let depth = if quick {
            if pos < deeper { 3 } else { 2 }
        } else if pos < deeper {
            4
        } else if *n <= 2 || pos < 90 {
            3
        } else {
            2
        };
        exhaustive(&format!("c12-t{}", i), cnf, *n, depth, 1, &mut env, &mut rng, out);
    }

    // ---- random longer histories on up to 8 (quick) / 10 (thorough) variables
    let count = ctx.count;
    let maxn = if quick { 8 } else { 10 };
    let mut made = 0;
    let mut tries = 0;
    while made < count && tries < 20 * count + 100 {
        tries += 1;
        let n = rng.range(2, maxn) as u32;
        // one start in sixteen has no clause at all (or only a tautology): empty stored set
        let ncl = if rng.chance(1, 16) { 0 } else { rng.range(1, (n as i64) + 2) as usize };
        let mut cnf: Cnf = random_cnf(&mut rng, n, ncl, 3).into_iter().filter(|c| !c.is_empty()).collect();
        if ncl == 0 && rng.coin() {
            cnf.push(vec![n as i32, -(n as i32)]);
        }
        if (cnf.is_empty() && ncl != 0) || !satisfiable(&cnf, n) {
            continue;
        }
        let len = rng.range(6, if quick { 14 } else { 30 }) as usize;
        random_history(&format!("c12-r{}", made), &cnf, n, len, &mut env, &mut rng, out);
        made += 1;
    }
    let _ = std::fs::remove_file(&env.start);
    let _ = std::fs::remove_file(&env.save);
    eprintln!("c12: {} steps executed", env.steps);
}
