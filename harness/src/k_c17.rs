//! C17: concurrent `Ddnnf::enumerate` calls on clones of one model in threads.
//!
//! controlled mode (needs hook H3): a deterministic barrier scheduler is registered as the H3
//! scheduling callback.  Worker threads park at every acquisition (`cursor_lock`) and release
//! (`cursor_unlock`) of the cursor lock; the scheduler lets exactly one of them run to its next
//! point.  All schedules are enumerated depth-first for 2 and 3 requests, random ones beyond.
//! stress mode (no hook needed): free-running workers, 8 requests of 2000 configurations on a
//! model with 14 free features.
//!
//! Nothing here decides anything: the case blocks record what the implementation answered;
//! ocaml/chk_c17.ml validates the events against the extracted protocol and runs the oracle.
use crate::common::*;
use crate::gen::*;
use crate::k_c01::{make_input, Source};
use crate::rng::Rng;
use ddnnife::Ddnnf;
use std::fmt::Write as _;
use std::io::Write;
use std::sync::atomic::{AtomicUsize, Ordering};
use std::sync::{Arc, Barrier, Mutex};

pub const KINDS: &[&str] = &["c17"];

#[cfg(has_h3)]
use ddnnife::ddnnf::anomalies::config_creation as cc;

pub const HOOK: bool = cfg!(has_h3);

#[derive(Clone)]
struct Key {
    lits: Vec<i32>, // sorted by abs, each literal once: the cache key the implementation uses (F19)
    c: usize,       // count(A) by the truth table of the source formula
}

#[derive(Clone)]
struct Req {
    key: usize,
    amount: usize,
    lits: Vec<i32>, // as passed (the literals of the key in some order, possibly repeated)
}

/// a complete configuration as a bit mask; None if it is not a complete, abs-sorted configuration
fn mask_of(cfg: &[i32], n: u32) -> Option<u64> {
    if cfg.len() != n as usize {
        return None;
    }
    let mut m = 0u64;
    for (j, &l) in cfg.iter().enumerate() {
        if l.unsigned_abs() as usize != j + 1 {
            return None;
        }
        if l > 0 {
            m |= 1 << j;
        }
    }
    Some(m)
}

fn answer_tokens(r: &Result<Option<Vec<Vec<i32>>>, String>, n: u32) -> String {
    match r {
        Err(e) => format!("panic {}", e),
        Ok(None) => "none".to_string(),
        Ok(Some(cfgs)) => {
            let mut s = String::from("cfgs");
            for c in cfgs {
                match mask_of(c, n) {
                    Some(m) => write!(s, " {}", m).unwrap(),
                    None => write!(s, " bad:{}", c.iter().map(|x| x.to_string()).collect::<Vec<_>>().join(",")).unwrap(),
                }
            }
            s
        }
    }
}

/// forget every cursor of the keys of this case (the case's instance is long-lived and reused
/// for every run: this is not compensation for a global cursor).  With the hook: the hook's reset; without: a
/// sequential request for count(A) configurations ends the running cycle and leaves the cursor at 0
/// (stop = min(c, cur + c) = c, and c mod c = 0).
fn reset(d: &mut Ddnnf, keys: &[Key]) {
    #[cfg(has_h3)]
    {
        let _ = keys;
        // the cursor of THIS model (hook H3b; shared with its clones, i.e. with the workers)
        reset_cursor(d);
    }
    #[cfg(not(has_h3))]
    for k in keys {
        let mut a = k.lits.clone();
        let _ = guarded(|| d.enumerate(&mut a, k.c));
    }
}

/// the current cursor of every key of the case (0 when absent) and the number of foreign keys,
/// read from the cursor map of `d` (hook H3b: per instance; clones of `d` show the same map)
#[cfg(has_h3)]
fn snapshot(d: &Ddnnf, keys: &[Key]) -> (Vec<usize>, usize) {
    let snap = cursor_snapshot(d);
    let mut v = vec![0usize; keys.len()];
    let mut foreign = 0;
    for (k, cur) in snap {
        match keys.iter().position(|x| x.lits == k) {
            Some(i) => v[i] = cur,
            None => foreign += 1,
        }
    }
    (v, foreign)
}

struct Case {
    id: String,
    info: String,
    n: u32,
    ddnnf: Ddnnf,
    keys: Vec<Key>,
    lines: Vec<String>, // the file text the instance was loaded from
}

fn case_header(case: &Case, mode: &str, reqs: &[Req], refs: &[String], seq: &[String]) -> String {
    let mut s = String::new();
    writeln!(s, "case {} C17", case.id).unwrap();
    writeln!(s, "info {}", case.info).unwrap();
    writeln!(s, "n {}", case.n).unwrap();
    s.push_str(&dump_circuit(&case.ddnnf));
    writeln!(s, "mode {}", mode).unwrap();
    writeln!(s, "hook {}", HOOK as u8).unwrap();
    for (i, k) in case.keys.iter().enumerate() {
        writeln!(s, "key {} {} {}", i, k.c, join(&k.lits)).unwrap();
        writeln!(s, "ref {} {}", i, refs[i]).unwrap();
    }
    for (i, r) in reqs.iter().enumerate() {
        writeln!(s, "req {} {} {} {}", i, r.key, r.amount, join(&r.lits)).unwrap();
    }
    for (i, a) in seq.iter().enumerate() {
        writeln!(s, "seq {} {}", i, a).unwrap();
    }
    s
}

/// the implementation's own sequential behaviour: the full cycle of every key from cursor 0
/// (`ref`), and the answers of the requests processed one after another in request order (`seq`)
fn sequential_reference(case: &mut Case, reqs: &[Req]) -> (Vec<String>, Vec<String>) {
    let n = case.n;
    let keys = case.keys.clone();
    reset(&mut case.ddnnf, &keys);
    let mut refs = Vec::new();
    for k in keys.iter() {
        let mut a = k.lits.clone();
        let d = &mut case.ddnnf;
        let r = guarded(|| d.enumerate(&mut a, k.c));
        refs.push(answer_tokens(&r, n));
    }
    reset(&mut case.ddnnf, &keys);
    let mut seq = Vec::new();
    for r in reqs {
        let mut a = r.lits.clone();
        let d = &mut case.ddnnf;
        let amount = r.amount;
        let res = guarded(|| d.enumerate(&mut a, amount));
        seq.push(answer_tokens(&res, n));
    }
    reset(&mut case.ddnnf, &keys);
    (refs, seq)
}

// ------------------------------------------------------------------------------------------
// controlled mode: the deterministic scheduler behind hook H3
#[cfg(has_h3)]
mod sched {
    use super::*;
    use std::cell::Cell;
    use std::collections::VecDeque;
    use std::sync::Condvar;
    use std::time::Duration;

    thread_local! { static WORKER: Cell<Option<usize>> = const { Cell::new(None) }; }

    #[derive(Clone, Copy, PartialEq)]
    enum St {
        Running,
        Parked,
        Finished,
    }

    struct State {
        status: Vec<St>,
        grant: Option<usize>,
        cur_req: Vec<Option<usize>>,
        queue: VecDeque<usize>,
        events: Vec<String>,
        answers: Vec<Option<String>>,
    }

    pub struct Shared {
        m: Mutex<State>,
        cv: Condvar,
        keys: Vec<Key>,
        /// a clone of the case's instance: shares the cursor with the workers' clones
        probe: Ddnnf,
    }

    impl Shared {
        fn park(&self, w: usize) {
            let mut st = self.m.lock().unwrap();
            st.status[w] = St::Parked;
            self.cv.notify_all();
            while st.grant != Some(w) {
                st = self.cv.wait(st).unwrap();
            }
            st.grant = None;
            st.status[w] = St::Running;
        }
        fn event(&self, w: usize, what: &str, with_snapshot: bool) {
            let snap = if with_snapshot {
                let (v, foreign) = snapshot(&self.probe, &self.keys);
                format!(" {} foreign {}", join(&v), foreign)
            } else {
                String::new()
            };
            let mut st = self.m.lock().unwrap();
            let r = st.cur_req[w].map(|x| x as i64).unwrap_or(-1);
            st.events.push(format!("{} {} {}{}", what, r, w, snap));
        }
        /// the H3 callback
        fn point(&self, name: &str) {
            let w = match WORKER.with(|c| c.get()) {
                Some(w) => w,
                None => return,
            };
            match name {
                "cursor_lock" => {
                    self.park(w);
                    // granted: the snapshot is what the critical section is going to see
                    self.event(w, "lock", true);
                }
                "cursor_unlock" => {
                    self.event(w, "unlock", true);
                    self.park(w);
                }
                "enumerated" => self.event(w, "computed", false),
                other => self.event(w, &format!("point:{}", other), false),
            }
        }
    }

    pub struct RunResult {
        pub schedule: Vec<usize>,
        pub enabled: Vec<Vec<usize>>,
        pub events: Vec<String>,
        pub answers: Vec<String>,
        pub fin: (Vec<usize>, usize),
        pub hung: bool,
    }

    /// one run: `workers` threads on clones of `d`; requests 0..workers-1 start on worker 0..,
    /// the others are taken from a queue by whichever worker finishes first.  `choose` picks the
    /// worker to run next among the parked ones.
    pub fn run_once(
        d: &Ddnnf,
        n: u32,
        keys: &[Key],
        reqs: &[Req],
        workers: usize,
        choose: &mut dyn FnMut(usize, &[usize]) -> usize,
    ) -> RunResult {
        let workers = workers.min(reqs.len());
        reset_cursor(d);
        let shared = Arc::new(Shared {
            m: Mutex::new(State {
                status: vec![St::Running; workers],
                grant: None,
                cur_req: (0..workers).map(Some).collect(),
                queue: (workers..reqs.len()).collect(),
                events: Vec::new(),
                answers: vec![None; reqs.len()],
            }),
            cv: Condvar::new(),
            keys: keys.to_vec(),
            probe: d.clone(),
        });
        let cb = shared.clone();
        cc::verif_set_sched_callback(Some(Arc::new(move |name: &str| cb.point(name))));
        let mut handles = Vec::new();
        for w in 0..workers {
            let sh = shared.clone();
            let mut dd = d.clone();
            let reqs = reqs.to_vec();
            handles.push(std::thread::spawn(move || {
                WORKER.with(|c| c.set(Some(w)));
                let mut cur = Some(w);
                while let Some(i) = cur {
                    let mut a = reqs[i].lits.clone();
                    let amount = reqs[i].amount;
                    let res = guarded(|| dd.enumerate(&mut a, amount));
                    let tokens = answer_tokens(&res, n);
                    let mut st = sh.m.lock().unwrap();
                    st.answers[i] = Some(tokens);
                    cur = st.queue.pop_front();
                    st.cur_req[w] = cur;
                }
                let mut st = sh.m.lock().unwrap();
                st.status[w] = St::Finished;
                sh.cv.notify_all();
            }));
        }
        let mut schedule = Vec::new();
        let mut enabled_log = Vec::new();
        let mut hung = false;
        loop {
            let mut st = shared.m.lock().unwrap();
            while st.grant.is_some() || st.status.iter().any(|s| *s == St::Running) {
                let (g, to) = shared.cv.wait_timeout(st, Duration::from_secs(60)).unwrap();
                st = g;
                if to.timed_out() {
                    hung = true;
                    break;
                }
            }
            if hung {
                break;
            }
            let enabled: Vec<usize> = (0..workers).filter(|&w| st.status[w] == St::Parked).collect();
            if enabled.is_empty() {
                break;
            }
            let w = choose(schedule.len(), &enabled);
            schedule.push(w);
            enabled_log.push(enabled);
            st.grant = Some(w);
            shared.cv.notify_all();
        }
        if !hung {
            for h in handles {
                let _ = h.join();
            }
        }
        cc::verif_set_sched_callback(None);
        let fin = snapshot(d, keys);
        let st = shared.m.lock().unwrap();
        RunResult {
            schedule,
            enabled: enabled_log,
            events: st.events.clone(),
            answers: st.answers.iter().map(|a| a.clone().unwrap_or_else(|| "missing".into())).collect(),
            fin,
            hung,
        }
    }

    pub fn write_run(s: &mut String, rid: usize, workers: usize, how: &str, r: &RunResult) {
        writeln!(s, "run {} workers {} {} sched {}", rid, workers, how, join(&r.schedule)).unwrap();
        for e in &r.events {
            writeln!(s, "ev {} {}", rid, e).unwrap();
        }
        for (i, a) in r.answers.iter().enumerate() {
            writeln!(s, "ans {} {} {}", rid, i, a).unwrap();
        }
        writeln!(s, "fin {} {} foreign {}", rid, join(&r.fin.0), r.fin.1).unwrap();
        if r.hung {
            writeln!(s, "hung {}", rid).unwrap();
        }
    }

    /// every schedule, depth first (stateless search: replay a prefix, then always the lowest
    /// parked worker; the next prefix changes the last decision that still has a larger choice)
    pub fn all_schedules(
        d: &Ddnnf,
        n: u32,
        keys: &[Key],
        reqs: &[Req],
        workers: usize,
        cap: usize,
        s: &mut String,
        rid: &mut usize,
    ) -> (usize, bool) {
        let mut prefix: Vec<usize> = Vec::new();
        let mut count = 0;
        loop {
            let p = prefix.clone();
            let mut choose = |pos: usize, en: &[usize]| -> usize {
                if pos < p.len() && en.contains(&p[pos]) {
                    p[pos]
                } else {
                    en[0]
                }
            };
            let r = run_once(d, n, keys, reqs, workers, &mut choose);
            write_run(s, *rid, workers, "dfs", &r);
            *rid += 1;
            count += 1;
            if r.hung {
                return (count, false);
            }
            // next prefix
            let mut next = None;
            for pos in (0..r.schedule.len()).rev() {
                if let Some(&w) = r.enabled[pos].iter().find(|&&w| w > r.schedule[pos]) {
                    let mut np = r.schedule[..pos].to_vec();
                    np.push(w);
                    next = Some(np);
                    break;
                }
            }
            match next {
                None => return (count, true),
                Some(np) => prefix = np,
            }
            if count >= cap {
                return (count, false);
            }
        }
    }
}

// ------------------------------------------------------------------------------------------
// stress mode: free-running workers pulling requests from a shared counter
fn stress_run(d: &Ddnnf, n: u32, reqs: &[Req], workers: usize) -> Vec<String> {
    let next = Arc::new(AtomicUsize::new(0));
    let answers: Arc<Mutex<Vec<Option<String>>>> = Arc::new(Mutex::new(vec![None; reqs.len()]));
    let barrier = Arc::new(Barrier::new(workers));
    let mut handles = Vec::new();
    for _ in 0..workers {
        let mut dd = d.clone();
        let reqs = reqs.to_vec();
        let next = next.clone();
        let answers = answers.clone();
        let barrier = barrier.clone();
        handles.push(std::thread::spawn(move || {
            barrier.wait();
            loop {
                let i = next.fetch_add(1, Ordering::SeqCst);
                if i >= reqs.len() {
                    break;
                }
                let mut a = reqs[i].lits.clone();
                let amount = reqs[i].amount;
                let res = guarded(|| dd.enumerate(&mut a, amount));
                let t = answer_tokens(&res, n);
                answers.lock().unwrap()[i] = Some(t);
            }
        }));
    }
    for h in handles {
        let _ = h.join();
    }
    let a = answers.lock().unwrap();
    a.iter().map(|x| x.clone().unwrap_or_else(|| "missing".into())).collect()
}

// ------------------------------------------------------------------------------------------
// models

fn count_under(models: &[u32], lits: &[i32]) -> usize {
    models
        .iter()
        .filter(|&&m| lits.iter().all(|&l| ((m >> (l.unsigned_abs() - 1)) & 1 == 1) == (l > 0)))
        .count()
}

fn sorted_abs(mut v: Vec<i32>) -> Vec<i32> {
    v.sort_by_key(|x| x.abs());
    v
}

fn random_lits(rng: &mut Rng, n: u32, k: usize) -> Vec<i32> {
    let mut vars: Vec<i32> = (1..=n as i32).collect();
    rng.shuffle(&mut vars);
    sorted_abs(vars.into_iter().take(k).map(|v| if rng.coin() { v } else { -v }).collect())
}

/// a generated model with two different assumption keys whose counts lie in lo..=200
fn small_model(idx: usize, rng: &mut Rng) -> Option<Case> {
    for _attempt in 0..200 {
        let n = 4 + rng.below(6) as u32; // 4..9
        let m = rng.below(n as u64 + 1) as usize;
        let maxw = 2 + rng.below(3) as usize;
        let extra = rng.below(2) as u32;
        let src = Source {
            cnf: random_cnf(rng, n, m, maxw),
            n: n + extra,
            desc: format!("random n={} m={} w<={} extra={}", n, m, maxw, extra),
        };
        let inp = match make_input(format!("c17-{}", idx), &src, rng) {
            Some(i) => i,
            None => continue,
        };
        let models = match &inp.models {
            Some(m) => m.clone(),
            None => continue,
        };
        let mut keys: Vec<Key> = Vec::new();
        for _ in 0..40 {
            let k = rng.below(3) as usize;
            let lits = random_lits(rng, inp.n, k);
            let c = count_under(&models, &lits);
            if (5..=200).contains(&c) && !keys.iter().any(|x| x.lits == lits) {
                keys.push(Key { lits, c });
            }
            if keys.len() == 2 {
                break;
            }
        }
        if keys.len() < 2 {
            continue;
        }
        let d = match load(&inp.lines, Some(inp.n)) {
            Ok(d) => d,
            Err(_) => continue,
        };
        return Some(Case {
            id: inp.id.clone(),
            info: format!("{} | {} | {}", inp.desc, inp.format, inp.lines.join(" / ")),
            n: inp.n,
            ddnnf: d,
            keys,
            lines: inp.lines.clone(),
        });
    }
    None
}

fn free14() -> Case {
    // d4 text of the constant true over 14 features: every feature is free
    let lines = vec!["t 1 0".to_string()];
    let d = load(&lines, Some(14)).expect("the 14 free features model loads");
    Case {
        id: "c17-free14".into(),
        info: "14 free features (d4 't 1 0', n=14)".into(),
        n: 14,
        ddnnf: d,
        keys: vec![Key { lits: vec![], c: 1 << 14 }, Key { lits: vec![3, -7], c: 1 << 12 }],
        lines,
    }
}

fn amounts_for(c: usize) -> Vec<usize> {
    let mut v = vec![1, 2, 3, 5, c.saturating_sub(1), c, c + 1];
    v.retain(|&a| a > 0);
    v.sort_unstable();
    v.dedup();
    v
}

fn make_reqs(rng: &mut Rng, keys: &[Key], which: &[usize], amounts: &dyn Fn(usize) -> Vec<usize>) -> Vec<Req> {
    which
        .iter()
        .map(|&k| {
            let am = amounts(keys[k].c);
            let mut lits = keys[k].lits.clone();
            // F19: the key is the SET of literals - every third request repeats one or two of them
            if !lits.is_empty() && rng.chance(1, 3) {
                for _ in 0..(1 + rng.below(2)) {
                    let extra = *rng.pick(&keys[k].lits);
                    lits.push(extra);
                }
            }
            rng.shuffle(&mut lits);
            Req { key: k, amount: *rng.pick(&am), lits }
        })
        .collect()
}

pub fn run(_kind: &str, ctx: &Ctx, out: &mut dyn Write) {
    let mut rng = Rng::new(ctx.seed);
    let thorough = ctx.tier == "thorough";
    let mut sub = 0usize;
    // bound on the schedules enumerated per request list (the repaired protocol needs 6 for two
    // and 90 for three requests; a protocol with more lock acquisitions has more)
    let cap = if thorough { 6000 } else { 400 };
    let _ = cap;

    // ---------------- controlled interleavings (hook H3) ----------------
    #[cfg(has_h3)]
    {
        let nmodels = ctx.count;
        let mut cases: Vec<(Case, bool)> = Vec::new();
        for i in 0..nmodels {
            if let Some(c) = small_model(i, &mut rng) {
                cases.push((c, false));
            }
        }
        cases.push((free14(), true));
        for (mut case, big) in cases {
            let base_id = case.id.clone();
            let keys = case.keys.clone();
            let small_amounts = |c: usize| -> Vec<usize> { amounts_for(c) };
            let big_amounts = |_c: usize| -> Vec<usize> { vec![1, 2, 3, 5, 2000] };
            let tiny_amounts = |_c: usize| -> Vec<usize> { vec![1, 2, 3, 5] };
            // (which keys the requests use, workers, exhaustive?, number of request lists)
            let mut plans: Vec<(Vec<usize>, usize, bool, usize)> = vec![
                (vec![0, 0], 2, true, if big { 2 } else { 4 }),
                (vec![0, 1], 2, true, 2),
                (vec![0, 0, 0], 3, true, if big { 1 } else { 3 }),
                (vec![0, 1, 0], 3, true, if big { 1 } else { 2 }),
                (vec![1, 0, 1], 4, true, 1),
                (vec![0, 0, 0], 2, true, 1),
                (vec![0, 0, 0, 0], 2, false, 1),
                (vec![0, 1, 0, 1], 3, false, 1),
                (vec![0, 0, 0, 0, 0], 4, false, 1),
                (vec![0, 0, 1, 0, 1], 3, false, 1),
                (vec![0, 0, 0, 0, 0, 0], 4, false, 1),
                (vec![1, 0, 0, 1, 0, 1], 2, false, 1),
            ];
            if thorough {
                for p in plans.iter_mut() {
                    p.3 *= 3;
                }
            }
            for (which, workers, exhaustive, lists) in plans {
                for _ in 0..lists {
                    let reqs = if big {
                        if which.len() >= 3 && exhaustive {
                            make_reqs(&mut rng, &keys, &which, &tiny_amounts)
                        } else {
                            make_reqs(&mut rng, &keys, &which, &big_amounts)
                        }
                    } else {
                        make_reqs(&mut rng, &keys, &which, &small_amounts)
                    };
                    case.id = format!("{}-{}", base_id, sub);
                    sub += 1;
                    let (refs, seq) = sequential_reference(&mut case, &reqs);
                    let mut s = case_header(&case, "controlled", &reqs, &refs, &seq);
                    let mut rid = 0usize;
                    if exhaustive {
                        let (cnt, complete) =
                            sched::all_schedules(&case.ddnnf, case.n, &keys, &reqs, workers, cap, &mut s, &mut rid);
                        writeln!(s, "explored {} {}", cnt, if complete { "all" } else { "capped" }).unwrap();
                    } else {
                        let nrand = if thorough { 60 } else { 20 };
                        for _ in 0..nrand {
                            let mut r2 = Rng::new(rng.next());
                            let mut choose = |_pos: usize, en: &[usize]| -> usize { *r2.pick(en) };
                            let r = sched::run_once(&case.ddnnf, case.n, &keys, &reqs, workers, &mut choose);
                            sched::write_run(&mut s, rid, workers, "random", &r);
                            rid += 1;
                        }
                        writeln!(s, "explored {} random", nrand).unwrap();
                    }
                    writeln!(s, "end").unwrap();
                    out.write_all(s.as_bytes()).unwrap();
                }
            }
        }
    }

    // ---------------- the same assumption SET spelled differently ----------------
    // (sequential, no scheduling needed).  Finding K12: the cursor was keyed by the assumption LIST,
    // so `enum a 1` and `enum a 1 1` had separate cursors and handed out the same configurations
    // again.  Repair F19: the key is the set (sorted, de-duplicated list).  All spellings of one set
    // are filed under ONE key here; the oracle of chk_c17.ml (no configuration a second time before
    // the cycle is complete, the answers are those of a sequential run on one cursor, final cursor)
    // and, with hook H3, the snapshot of the cursor map (no entry besides the two keys) decide.
    {
        let d = load(&["t 1 0".to_string()], Some(4)).expect("4 free features load");
        let mut case = Case {
            id: "c17-dupset".into(),
            info: "4 free features; requests for the sets {1} and {2,-3} spelled with repeated literals and in different orders, processed one after another".into(),
            n: 4,
            ddnnf: d,
            keys: vec![Key { lits: vec![1], c: 8 }, Key { lits: vec![2, -3], c: 4 }],
            lines: vec!["t 1 0".to_string()],
        };
        let reqs = vec![
            Req { key: 0, amount: 3, lits: vec![1] },
            Req { key: 0, amount: 3, lits: vec![1, 1] },
            Req { key: 1, amount: 1, lits: vec![2, -3] },
            Req { key: 1, amount: 2, lits: vec![-3, 2, -3, 2] },
            Req { key: 0, amount: 3, lits: vec![1, 1, 1] },
            Req { key: 1, amount: 2, lits: vec![2, 2, -3] },
            Req { key: 0, amount: 2, lits: vec![1] },
            Req { key: 1, amount: 1, lits: vec![-3, -3, 2] },
        ];
        let keys = case.keys.clone();
        let (refs, _) = sequential_reference(&mut case, &[]);
        let mut s = case_header(&case, "dupset", &reqs, &refs, &[]);
        reset(&mut case.ddnnf, &keys);
        writeln!(s, "run 0 workers 1 sequential sched").unwrap();
        for (i, r) in reqs.iter().enumerate() {
            let mut a = r.lits.clone();
            let dd = &mut case.ddnnf;
            let amount = r.amount;
            let res = guarded(|| dd.enumerate(&mut a, amount));
            writeln!(s, "ans 0 {} {}", i, answer_tokens(&res, case.n)).unwrap();
        }
        #[cfg(has_h3)]
        {
            let (v, foreign) = snapshot(&case.ddnnf, &keys);
            writeln!(s, "fin 0 {} foreign {}", join(&v), foreign).unwrap();
        }
        writeln!(s, "explored 1 sequential").unwrap();
        writeln!(s, "end").unwrap();
        out.write_all(s.as_bytes()).unwrap();
    }

    // ---------------- who shares a cursor (F21) ----------------
    // The workers of the stream mode are clones of ONE loaded model and must page through it
    // TOGETHER (that is what C17 is about); two independently loaded instances - of the same file
    // even - are two models and must NOT share (C16).  Sequential, no scheduling needed; judged by
    // the same oracle as every run (the answers of one cursor are those of a sequential run from
    // position 0, nothing twice within a cycle, final cursor):
    //   mode clones:       the requests go round-robin to the instance and two clones of it,
    //                      ONE run: all answers together must be one sequential run;
    //   mode independent:  every request goes to instance X and then to instance Y (loaded
    //                      separately from the same text), run 0 = the answers of X, run 1 = the
    //                      answers of Y: each must be a sequential run from position 0 of its own.
    {
        let nm = if thorough { 24 } else { 6 };
        let mut done = 0;
        let mut idx = 0;
        while done < nm && idx < 40 * nm {
            idx += 1;
            let mut case = match small_model(100_000 + idx, &mut rng) {
                Some(c) => c,
                None => continue,
            };
            done += 1;
            let keys = case.keys.clone();
            let which: Vec<usize> = (0..8).map(|_| rng.below(2) as usize).collect();
            let small_amounts = |c: usize| -> Vec<usize> { amounts_for(c) };
            let reqs = make_reqs(&mut rng, &keys, &which, &small_amounts);
            let lines = case.lines.clone();
            let n = case.n;
            let base = case.id.clone();
            // ---- clones
            let (refs, seq) = sequential_reference(&mut case, &reqs);
            case.id = format!("{}-clones", base);
            let mut s = case_header(&case, "clones", &reqs, &refs, &seq);
            reset(&mut case.ddnnf, &keys);
            let mut c1 = case.ddnnf.clone();
            let mut c2 = case.ddnnf.clone();
            // one clone rebuilds itself (as a worker does at the end of an edit it serves; here the
            // model stays the same): the cursor reset that goes with it must not detach that clone
            // from the cursor it shares with the others
            let _ = guarded(|| c1.rebuild());
            writeln!(s, "run 0 workers 3 clones sched").unwrap();
            for (i, r) in reqs.iter().enumerate() {
                let mut a = r.lits.clone();
                let amount = r.amount;
                let dd = match i % 3 { 0 => &mut case.ddnnf, 1 => &mut c1, _ => &mut c2 };
                let res = guarded(|| dd.enumerate(&mut a, amount));
                writeln!(s, "ans 0 {} {}", i, answer_tokens(&res, n)).unwrap();
            }
            #[cfg(has_h3)]
            {
                // read through the second clone: the three must show the same map
                let (v, foreign) = snapshot(&c2, &keys);
                writeln!(s, "fin 0 {} foreign {}", join(&v), foreign).unwrap();
            }
            writeln!(s, "explored 1 clones").unwrap();
            writeln!(s, "end").unwrap();
            out.write_all(s.as_bytes()).unwrap();
            // ---- independent instances of the same file
            reset(&mut case.ddnnf, &keys);
            case.id = format!("{}-independent", base);
            let mut s = case_header(&case, "independent", &reqs, &refs, &seq);
            if let (Ok(mut x), Ok(mut y)) = (load(&lines, Some(n)), load(&lines, Some(n))) {
                let mut ax = Vec::new();
                let mut ay = Vec::new();
                for r in reqs.iter() {
                    let amount = r.amount;
                    let mut a = r.lits.clone();
                    ax.push(answer_tokens(&guarded(|| x.enumerate(&mut a, amount)), n));
                    let mut a = r.lits.clone();
                    ay.push(answer_tokens(&guarded(|| y.enumerate(&mut a, amount)), n));
                }
                for (rid, (ans, inst)) in [(ax, &x), (ay, &y)].iter().enumerate() {
                    writeln!(s, "run {} workers 1 independent sched", rid).unwrap();
                    for (i, a) in ans.iter().enumerate() {
                        writeln!(s, "ans {} {} {}", rid, i, a).unwrap();
                    }
                    #[cfg(has_h3)]
                    {
                        let (v, foreign) = snapshot(inst, &keys);
                        writeln!(s, "fin {} {} foreign {}", rid, join(&v), foreign).unwrap();
                    }
                    let _ = inst;
                }
            }
            writeln!(s, "explored 2 independent").unwrap();
            writeln!(s, "end").unwrap();
            out.write_all(s.as_bytes()).unwrap();
        }
    }

    // ---------------- free-running stress (no hook needed) ----------------
    {
        let mut case = free14();
        let base_id = "c17-stress".to_string();
        let keys = vec![case.keys[0].clone()];
        case.keys = keys.clone();
        let reps = if thorough { 60 } else { 12 };
        let reqs: Vec<Req> = (0..8).map(|_| Req { key: 0, amount: 2000, lits: vec![] }).collect();
        let (refs, seq) = sequential_reference(&mut case, &reqs);
        for rep in 0..reps {
            for workers in 2..=4usize {
                case.id = format!("{}-{}-j{}", base_id, rep, workers);
                let mut s = case_header(&case, "stress", &reqs, &refs, &seq);
                let ks = case.keys.clone();
                reset(&mut case.ddnnf, &ks);
                let answers = stress_run(&case.ddnnf, case.n, &reqs, workers);
                writeln!(s, "run 0 workers {} free sched", workers).unwrap();
                for (i, a) in answers.iter().enumerate() {
                    writeln!(s, "ans 0 {} {}", i, a).unwrap();
                }
                #[cfg(has_h3)]
                {
                    let (v, foreign) = snapshot(&case.ddnnf, &ks);
                    writeln!(s, "fin 0 {} foreign {}", join(&v), foreign).unwrap();
                }
                writeln!(s, "explored 1 free").unwrap();
                writeln!(s, "end").unwrap();
                out.write_all(s.as_bytes()).unwrap();
            }
        }
    }
    let _ = &mut sub;
}
