//! C16: history independence judged without any model: every request on a long-lived instance
//! is also sent to a freshly loaded instance and to a clone; the three answers must be equal.
//! Second part: two different models paged alternately in one process (cursor ownership): each
//! must page through its own cycle, judged by its truth table.
use crate::common::*;
use crate::k_c01::{make_input, sources, write_models, Input};
use crate::k_enum::fmt_cfgs;
use crate::k_ops::random_list;
use crate::rng::Rng;
use ddnnife::Ddnnf;
use std::fmt::Write as _;
use std::io::Write;

pub const KINDS: &[&str] = &["c16h"];

#[derive(Clone, Debug)]
enum Req {
    Count(Vec<i32>),
    Sat(Vec<i32>),
    Core(Vec<i32>),
    Table,
    Sample(Vec<i32>, usize, u64),
    Atomic(Vec<i32>),
    Save,
    Marked(Vec<i32>),
    // history only (their own answers legitimately depend on paging state / are randomised)
    Enum(Vec<i32>, usize),
    Twise(usize),
}

fn scratch_dir() -> std::path::PathBuf {
    let exe = std::env::current_exe().unwrap();
    // <root>/.cache/target/<profile>/vharness -> <root>/.cache/scratch
    let cache = exe.parent().unwrap().parent().unwrap().parent().unwrap().to_path_buf();
    let d = cache.join("scratch");
    std::fs::create_dir_all(&d).unwrap();
    d
}

fn answer(d: &mut Ddnnf, q: &Req, tag: &str) -> String {
    let r = guarded(|| match q {
        Req::Count(a) => d.execute_query(a).to_string(),
        Req::Sat(a) => (d.sat(a) as u8).to_string(),
        Req::Core(a) => {
            let mut c = d.core_dead_with_assumptions(a);
            if a.is_empty() {
                c.sort();
            }
            join(&c)
        }
        Req::Table => d
            .card_of_each_feature()
            .map(|(v, c, r)| format!("{}:{}:{:.10e}", v, c, r))
            .collect::<Vec<_>>()
            .join(" "),
        Req::Sample(a, k, seed) => match d.uniform_random_sampling(a, *k, *seed) {
            Some(l) => fmt_cfgs(&l),
            None => "none".into(),
        },
        Req::Atomic(a) => {
            let s = d.get_atomic_sets(None, a, false);
            s.iter().map(|c| join(c)).collect::<Vec<_>>().join(" ; ")
        }
        Req::Save => {
            let p = scratch_dir().join(format!("c16-{}-{}.nnf", std::process::id(), tag));
            ddnnife::parser::persisting::write_ddnnf_to_file(d, &p).unwrap();
            let t = std::fs::read_to_string(&p).unwrap_or_default();
            let _ = std::fs::remove_file(&p);
            t.lines().collect::<Vec<_>>().join(" / ")
        }
        Req::Marked(a) => join(&d.get_marked_nodes_clone(a)),
        Req::Enum(a, k) => {
            let mut a2 = a.clone();
            match d.enumerate(&mut a2, *k) {
                Some(l) => fmt_cfgs(&l),
                None => "none".into(),
            }
        }
        Req::Twise(t) => format!("{}", d.sample_t_wise(*t)).replace('\n', " "),
    });
    match r {
        Ok(s) => s,
        Err(e) => format!("PANIC {}", e),
    }
}

fn describe(q: &Req) -> String {
    match q {
        Req::Count(a) => format!("count {}", join(a)),
        Req::Sat(a) => format!("sat {}", join(a)),
        Req::Core(a) => format!("core {}", join(a)),
        Req::Table => "table".into(),
        Req::Sample(a, k, s) => format!("sample {} {} | {}", k, s, join(a)),
        Req::Atomic(a) => format!("atomic {}", join(a)),
        Req::Save => "save".into(),
        Req::Marked(a) => format!("marked {}", join(a)),
        Req::Enum(a, k) => format!("enum {} | {}", k, join(a)),
        Req::Twise(t) => format!("twise {}", t),
    }
}

fn random_req(rng: &mut Rng, n: u32) -> Req {
    let len = *rng.pick(&[0usize, 1, 1, 2, 3, 21, 24]);
    let cons = rng.chance(5, 6);
    let a = random_list(rng, n, len, cons);
    // configuration requests mostly get short lists; now and then the long one, whose repeated
    // literals shrink to at most n distinct ones inside enumerate (key = set of literals)
    let keep_long = a.len() > 3 && rng.coin();
    let short = |a: Vec<i32>, k: usize| -> Vec<i32> { if keep_long { a } else { a.into_iter().take(k).collect() } };
    match rng.below(12) {
        0 | 1 => Req::Count(a),
        2 => Req::Sat(a),
        3 => Req::Core(a.into_iter().take(2).collect()),
        4 => Req::Table,
        5 => Req::Sample(short(a, 2), 1 + rng.below(8) as usize, rng.below(50)),
        6 => Req::Atomic(a.into_iter().take(1).collect()),
        7 => Req::Save,
        8 => Req::Marked(a),
        9 | 10 => Req::Enum(short(a, 2), 1 + rng.below(4) as usize),
        _ => Req::Twise(1 + rng.below(2) as usize),
    }
}

fn history_block(inp: &Input, rng: &mut Rng, quick: bool, s: &mut String) {
    writeln!(s, "case {} C16H", inp.id).unwrap();
    writeln!(s, "info {}", inp.desc).unwrap();
    writeln!(s, "n {}", inp.n).unwrap();
    write_models(s, inp);
    s.push_str(&file_block(inp.format, &inp.lines));
    let mut d = match load(&inp.lines, Some(inp.n)) {
        Ok(d) => d,
        Err(e) => {
            writeln!(s, "impl panic {}", e).unwrap();
            writeln!(s, "end").unwrap();
            return;
        }
    };
    s.push_str(&dump_circuit(&d));
    let steps = if quick { 25 } else { 80 };
    for k in 0..steps {
        let q = random_req(rng, inp.n);
        writeln!(s, "op {}", describe(&q)).unwrap();
        let history_only = matches!(q, Req::Enum(..) | Req::Twise(..));
        // the clone is taken BEFORE the request, from the long-lived instance
        let mut cl = d.clone();
        let r = answer(&mut d, &q, "live");
        writeln!(s, "r {}", r).unwrap();
        if !history_only {
            let mut fresh = load(&inp.lines, Some(inp.n)).unwrap();
            writeln!(s, "fresh {}", answer(&mut fresh, &q, "fresh")).unwrap();
            writeln!(s, "clone {}", answer(&mut cl, &q, "clone")).unwrap();
        }
        let clean = d.verif_markers().iter().all(|m| !m) && d.md.is_empty();
        writeln!(s, "clean {}", clean as u8).unwrap();
        let _ = k;
    }
    writeln!(s, "end").unwrap();
}

/// Cursor ownership (the second sentence of C16): two different models are paged alternately in
/// one process with the same assumptions.  Each model must page through ITS OWN cycle: the
/// checker judges the pages of either model by that model's truth table (`xmodels`), as if the
/// other model did not exist.  `xref` repeats the requests of each model on a further freshly
/// loaded instance with nothing else going on in between (used to tell a cursor shared between
/// models from a paging defect of one model, and as the reference when there is no truth table).
fn cross_block(id: String, a: &Input, b: &Input, rng: &mut Rng, s: &mut String) {
    writeln!(s, "case {} C16X", id).unwrap();
    writeln!(s, "info two models paged alternately in one process: [{}] and [{}]", a.desc, b.desc).unwrap();
    writeln!(s, "n {}", a.n).unwrap();
    writeln!(s, "cursor_per_model {}", CURSOR_PER_MODEL as u8).unwrap();
    let inputs = [a, b];
    for (m, inp) in inputs.iter().enumerate() {
        writeln!(s, "xn {} {}", m, inp.n).unwrap();
        if let Some(ms) = &inp.models {
            if inp.n <= 10 {
                writeln!(s, "xmodels {} {}", m, join(ms)).unwrap();
            }
        }
    }
    let loaded = (load(&a.lines, Some(a.n)), load(&b.lines, Some(b.n)));
    let (mut da, mut db) = match loaded {
        (Ok(x), Ok(y)) => (x, y),
        _ => {
            writeln!(s, "impl panic load").unwrap();
            writeln!(s, "end").unwrap();
            return;
        }
    };
    // assumptions both models understand: none, or one literal over a feature of both
    let nmin = a.n.min(b.n);
    let asm: Vec<i32> = if nmin >= 1 && rng.coin() {
        let f = 1 + rng.below(nmin as u64) as i32;
        vec![if rng.coin() { f } else { -f }]
    } else {
        vec![]
    };
    let seq: Vec<(usize, usize)> = (0..10).map(|_| (rng.below(2) as usize, 1 + rng.below(3) as usize)).collect();
    // interleaved run: both instances are fresh, nothing is reset
    for (m, k) in &seq {
        let d = if *m == 0 { &mut da } else { &mut db };
        let r = answer(d, &Req::Enum(asm.clone(), *k), "x");
        writeln!(s, "xenum {} {} | {} = {}", m, k, join(&asm), r).unwrap();
    }
    // reference: the requests of each model alone on a further fresh instance
    for (m, inp) in inputs.iter().enumerate() {
        if let Ok(mut d) = load(&inp.lines, Some(inp.n)) {
            for (mm, k) in &seq {
                if *mm == m {
                    let r = answer(&mut d, &Req::Enum(asm.clone(), *k), "x");
                    writeln!(s, "xref {} {} | {} = {}", m, k, join(&asm), r).unwrap();
                }
            }
        }
    }
    writeln!(s, "end").unwrap();
}

pub fn run(_kind: &str, ctx: &Ctx, out: &mut dyn Write) {
    let mut rng = Rng::new(ctx.seed ^ 0x5eed_0016);
    let quick = ctx.tier != "thorough";
    let srcs = sources(ctx, &mut rng);
    let mut k = 0;
    let mut prev: Option<Input> = None;
    for src in srcs.iter() {
        let inp = match make_input(format!("c16h-{}", k), src, &mut rng) {
            Some(i) => i,
            None => continue,
        };
        k += 1;
        let mut s = String::new();
        history_block(&inp, &mut rng, quick, &mut s);
        if k % 5 == 0 {
            if let Some(p) = &prev {
                cross_block(format!("c16x-{}", k), p, &inp, &mut rng, &mut s);
            }
        }
        out.write_all(s.as_bytes()).unwrap();
        prev = Some(inp);
    }
}
