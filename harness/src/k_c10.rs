//! C10: save / reload.  For every input of the C01 input space (plus a few hand-written c2d
//! files with n-ary Or nodes, true and false nodes): load, dump the node vector, save with
//! `write_ddnnf_to_file`, record the written bytes, load the written file again with the real
//! file loader, dump the reloaded vector, and ask both models the same battery of queries
//! (count under assumptions, sat, core/dead, enumeration set, atomic sets).
use crate::common::*;
use crate::k_c01::{make_input, sources, write_models, Input};
use crate::rng::Rng;
use ddnnife::parser::persisting::write_ddnnf_to_file;
use ddnnife::Ddnnf;
use std::fmt::Write as _;
use std::io::Write;
use std::path::PathBuf;

pub const KINDS: &[&str] = &["c10"];

/// scratch file below the framework's own .cache (never the system temp dir)
fn scratch_path() -> PathBuf {
    let dir = PathBuf::from(env!("CARGO_MANIFEST_DIR")).join("../.cache/run/C10");
    std::fs::create_dir_all(&dir).unwrap();
    dir.join(format!("scratch-{}.nnf", std::process::id()))
}

fn dump_nodes2(d: &Ddnnf) -> String {
    // the reloaded vector as generic `node2` lines (blocks.ml knows only one `circuit`)
    let txt = dump_circuit(d);
    let mut s = String::new();
    for (i, l) in txt.lines().enumerate() {
        if i == 0 {
            writeln!(s, "nodes2 {}", &l["circuit ".len()..]).unwrap();
        } else {
            writeln!(s, "node2 {}", l).unwrap();
        }
    }
    s
}

/// the assumption lists both models are asked about
fn assumption_lists(n: u32, rng: &mut Rng) -> Vec<Vec<i32>> {
    let mut v: Vec<Vec<i32>> = vec![vec![]];
    let n = n as i64;
    for f in 1..=n.min(5) {
        v.push(vec![f as i32]);
        v.push(vec![-(f as i32)]);
    }
    for _ in 0..6 {
        let len = 2 + rng.below(3) as usize;
        let mut a = Vec::new();
        for _ in 0..len {
            let f = rng.range(1, n) as i32;
            a.push(if rng.coin() { f } else { -f });
        }
        v.push(a);
    }
    if n >= 2 {
        // a list longer than 20 literals (the default-count strategy of execute_query)
        let mut a = Vec::new();
        let f0 = rng.range(1, n) as i32;
        for k in 0..22 {
            let f = if k % 2 == 0 { f0 } else { rng.range(1, n) as i32 };
            a.push(f);
        }
        v.push(a);
    }
    v
}

fn sorted<T: Ord>(mut v: Vec<T>) -> Vec<T> {
    v.sort();
    v
}

/// one line per query: `impl <tag> <query> : <answer>`
fn battery(tag: &str, d: &mut Ddnnf, lists: &[Vec<i32>], s: &mut String) {
    writeln!(s, "impl {} rc : {}", tag, d.rc()).unwrap();
    writeln!(s, "impl {} core : {}", tag, join(&sorted(d.get_core().into_iter().collect::<Vec<i32>>()))).unwrap();
    for (k, a) in lists.iter().enumerate() {
        let q = join(a);
        let cnt = guarded(|| d.execute_query(a));
        match &cnt {
            Ok(c) => writeln!(s, "impl {} count {} : {}", tag, q, c).unwrap(),
            Err(e) => writeln!(s, "impl {} count {} : PANIC {}", tag, q, e).unwrap(),
        }
        match guarded(|| d.sat(a)) {
            Ok(b) => writeln!(s, "impl {} sat {} : {}", tag, q, b as u8).unwrap(),
            Err(e) => writeln!(s, "impl {} sat {} : PANIC {}", tag, q, e).unwrap(),
        }
        if k % 3 == 0 {
            match guarded(|| d.core_dead_with_assumptions(a)) {
                Ok(c) => {
                    let mut c = sorted(c);
                    c.dedup();
                    writeln!(s, "impl {} coredead {} : {}", tag, q, join(&c)).unwrap()
                }
                Err(e) => writeln!(s, "impl {} coredead {} : PANIC {}", tag, q, e).unwrap(),
            }
        }
        let small = match &cnt {
            Ok(c) => *c <= num::BigInt::from(64),
            Err(_) => false,
        };
        // A model whose root is a true node makes `enumerate` divide by zero while it holds the
        // cursor lock (rt = 0 because preprocess_config_creation hides true nodes); the poisoned
        // lock makes every later enumeration on that model panic (before the repair F21: of the
        // whole process), so such a model (only the hand-written zero-feature case, outside the
        // input space) is not asked for enumerations.
        let true_root = matches!(d.nodes.last().map(|x| &x.ntype), Some(ddnnife::NodeType::True));
        if small && k % 2 == 0 && !true_root {
            // the whole model set under `a` in one page (the cursor of this model is back at 0
            // afterwards because stop = rt)
            let mut aa = a.clone();
            match guarded(|| d.enumerate(&mut aa, 1000)) {
                Ok(Some(cfgs)) => {
                    let set = sorted(cfgs.iter().map(|c| join(c).replace(' ', ",")).collect::<Vec<_>>());
                    writeln!(s, "impl {} enumset {} : {}", tag, q, set.join(" ")).unwrap()
                }
                Ok(None) => writeln!(s, "impl {} enumset {} : NONE", tag, q).unwrap(),
                Err(e) => writeln!(s, "impl {} enumset {} : PANIC {}", tag, q, e).unwrap(),
            }
        }
        if k % 5 == 0 && d.number_of_variables <= 64 {
            match guarded(|| d.get_atomic_sets(None, a, k % 10 == 0)) {
                Ok(sets) => {
                    let t = sorted(sets.iter().map(|x| join(x).replace(' ', ",")).collect::<Vec<_>>());
                    writeln!(s, "impl {} atomic {} : {}", tag, q, t.join(" ")).unwrap()
                }
                Err(e) => writeln!(s, "impl {} atomic {} : PANIC {}", tag, q, e).unwrap(),
            }
        }
    }
}

/// hand-written c2d files: shapes the reference compiler does not emit
fn handwritten() -> Vec<Input> {
    let mk = |id: &str, n: u32, desc: &str, text: &[&str]| Input {
        id: id.to_string(),
        n,
        format: "c2d",
        lines: text.iter().map(|x| x.to_string()).collect(),
        desc: desc.to_string(),
        models: None,
    };
    vec![
        mk("c10x-small_ex", 4, "tests/data/small_ex_c2d.nnf",
           &["nnf 11 11 4", "L 1", "L 2", "L -3", "L -2", "L 3", "L 4", "L -4", "A 2 1 2", "A 2 3 4",
             "O 0 2 7 8", "O 4 2 5 6", "A 3 0 9 10"]),
        mk("c10x-nary-or", 3, "exactly one of three features, 3-ary Or",
           &["nnf 10 12 3", "L 1", "L -1", "L 2", "L -2", "L 3", "L -3", "A 3 0 3 5", "A 3 1 2 5",
             "A 3 1 3 4", "O 0 3 6 7 8"]),
        mk("c10x-true-node", 3, "true node below an And, free third feature smoothed by hand",
           &["nnf 8 7 3", "L 1", "L 2", "A 0", "L 3", "L -3", "O 3 2 3 4", "A 4 0 1 2 5"]),
        mk("c10x-false-node", 2, "K7 shape: dead branch with a false node kept",
           &["nnf 7 0 2", "L 1", "O 0 0", "L 2", "A 3 0 1 2", "L -1", "A 2 4 2", "O 1 2 3 5"]),
        mk("c10x-unreachable", 2, "a line the root does not reach, a shared literal and a repeated line",
           &["nnf 7 0 2", "L 1", "L 2", "L -2", "L 2", "O 2 2 1 2", "A 2 0 4"]),
        mk("c10x-single-child", 1, "single-child Or and And chain, multi-digit padding nodes",
           &["nnf 14 0 1", "L 1", "L -1", "O 1 2 0 1", "A 1 2", "O 0 1 3", "A 1 4", "O 0 1 5", "A 1 6",
             "O 0 1 7", "A 1 8", "O 0 1 9", "A 1 10", "O 0 1 11"]),
        mk("c10x-lone-true", 0, "a single true node, zero features", &["nnf 1 0 0", "A 0"]),
        mk("c10x-lone-literal", 1, "a single literal", &["nnf 1 0 1", "L -1"]),
    ]
}

/// random sets of models written as one n-ary Or over full cubes (n-ary And nodes): smooth,
/// decomposable and deterministic by construction; Or arity up to 2^n
fn minterm_inputs(count: usize, rng: &mut Rng) -> Vec<Input> {
    let mut v = Vec::new();
    for k in 0..count {
        let n = 2 + rng.below(4) as u32; // 2..5
        let rows = 1u32 << n;
        let mut ms: Vec<u32> = (0..rows).filter(|_| rng.chance(1, 2)).collect();
        if ms.is_empty() {
            ms.push(rng.below(rows as u64) as u32);
        }
        let mut lines = vec![String::new()];
        for f in 1..=n {
            lines.push(format!("L {}", f)); // index 2(f-1)
            lines.push(format!("L -{}", f)); // index 2(f-1)+1
        }
        let mut cubes = Vec::new();
        for m in ms.iter() {
            let cs: Vec<String> = (0..n)
                .map(|b| (2 * b + if (m >> b) & 1 == 1 { 0 } else { 1 }).to_string())
                .collect();
            cubes.push(lines.len() - 1);
            lines.push(format!("A {} {}", n, cs.join(" ")));
        }
        lines.push(format!("O 0 {} {}", cubes.len(), join(&cubes)));
        lines[0] = format!("nnf {} 0 {}", lines.len() - 1, n);
        v.push(Input {
            id: format!("c10m-{}", k),
            n,
            format: "c2d",
            lines,
            desc: format!("minterms n={} models={}", n, ms.len()),
            models: Some(ms),
        });
    }
    v
}

fn one_case(inp: &Input, qrng: &mut Rng, out: &mut dyn Write) {
    one_case_edit(inp, None, qrng, out)
}

/// `edit`: a unit clause applied through the incremental edit API before saving ("every model
/// reached by the edits of C11"); the source truth table is filtered accordingly
fn one_case_edit(inp: &Input, edit: Option<i32>, qrng: &mut Rng, out: &mut dyn Write) {
    let mut s = String::new();
    let mut inp = inp.clone();
    if let Some(l) = edit {
        inp.id = format!("{}-edit{}", inp.id, l);
        inp.desc = format!("{} | then unit clause [{}] added incrementally", inp.desc, l);
        if let Some(ms) = inp.models.as_mut() {
            ms.retain(|m| {
                let bit = (m >> (l.unsigned_abs() - 1)) & 1 == 1;
                if l > 0 { bit } else { !bit }
            });
            if ms.is_empty() {
                return;
            }
        }
        // the loader correspondence of the ORIGINAL file does not apply to the edited vector
        inp.format = if inp.format == "c2d" { "c2d-edited" } else { "d4-edited" };
    }
    let inp = &inp;
    writeln!(s, "case {} C10", inp.id).unwrap();
    writeln!(s, "info {}", inp.desc).unwrap();
    writeln!(s, "n {}", inp.n).unwrap();
    write_models(&mut s, inp);
    s.push_str(&file_block(inp.format, &inp.lines));
    let loaded = load(&inp.lines, Some(inp.n)).and_then(|mut d| match edit {
        None => Ok(d),
        // without a truth table (n > 16) the precondition "the edit leaves the formula satisfiable"
        // is decided by the library's own count (C02 judges that count); an edit that would make
        // the formula unsatisfiable is outside C10/C11 and is not applied
        Some(l) if inp.models.is_none() && guarded(|| d.execute_query(&[l])).map(|c| c == num::BigInt::from(0)).unwrap_or(true) => Ok(d),
        Some(l) => guarded(move || {
            use ddnnife::parser::intermediate_representation::ClauseApplication;
            d.prepare_and_apply_incremental_edit(vec![(vec![l], ClauseApplication::Add)]);
            d
        }),
    });
    match loaded {
        Err(e) => writeln!(s, "impl panic load {}", e).unwrap(),
        Ok(mut d) => {
            s.push_str(&dump_circuit(&d));
            writeln!(s, "impl nvars {}", d.number_of_variables).unwrap();
            let path = scratch_path();
            // every second case saves over an existing, longer file (an earlier save of a bigger model)
            if qrng.coin() {
                let mut old = String::from("nnf 400 399 1\n");
                for _ in 0..399 {
                    old.push_str("L 1\n");
                }
                old.push_str("A 399");
                for i in 0..399 {
                    old.push_str(&format!(" {}", i));
                }
                old.push('\n');
                std::fs::write(&path, old).unwrap();
                writeln!(s, "impl target_existed 1").unwrap();
            }
            let saved = guarded(|| write_ddnnf_to_file(&d, &path));
            match saved {
                Err(e) => writeln!(s, "impl panic save {}", e).unwrap(),
                Ok(Err(e)) => writeln!(s, "impl panic save-io {}", e).unwrap(),
                Ok(Ok(())) => {
                    let bytes = std::fs::read(&path).unwrap();
                    let text = String::from_utf8_lossy(&bytes).to_string();
                    let ends_nl = text.ends_with('\n');
                    let lines: Vec<String> = text.lines().map(|l| l.to_string()).collect();
                    s.push_str(&file_block("saved", &lines));
                    writeln!(s, "impl saved_bytes {} {} {}", bytes.len(), ends_nl as u8,
                             text.contains('\r') as u8).unwrap();
                    // the real file loader on the written file (reads the lines, distribute_building)
                    let p2 = path.clone();
                    let reloaded = guarded(move || Ddnnf::from_file(&p2, None));
                    let _ = std::fs::remove_file(&path);
                    match reloaded {
                        Err(e) => writeln!(s, "impl panic reload {}", e).unwrap(),
                        Ok(mut d2) => {
                            // and distribute_building on the text must give the same vector
                            match load(&lines, None) {
                                Ok(d3) => {
                                    if dump_circuit(&d3) != dump_circuit(&d2) {
                                        writeln!(s, "impl panic reload from_file and distribute_building disagree").unwrap();
                                    }
                                }
                                Err(e) => writeln!(s, "impl panic reload-lines {}", e).unwrap(),
                            }
                            s.push_str(&dump_nodes2(&d2));
                            writeln!(s, "impl nvars2 {}", d2.number_of_variables).unwrap();
                            let lists = assumption_lists(inp.n.max(1), qrng);
                            battery("q0", &mut d, &lists, &mut s);
                            battery("q1", &mut d2, &lists, &mut s);
                        }
                    }
                }
            }
        }
    }
    writeln!(s, "end").unwrap();
    out.write_all(s.as_bytes()).unwrap();
}

pub fn run(_kind: &str, ctx: &Ctx, out: &mut dyn Write) {
    let mut qrng = Rng::new(ctx.seed ^ 0xC10);
    for inp in handwritten().iter() {
        one_case(inp, &mut qrng, out);
    }
    let mut mrng = Rng::new(ctx.seed ^ 0xC10A);
    let nm = if ctx.tier == "thorough" { 400 } else { 60 };
    for inp in minterm_inputs(nm, &mut mrng).iter() {
        one_case(inp, &mut qrng, out);
    }
    // the C01 input space, same stream as k_c01
    let mut rng = Rng::new(ctx.seed);
    let srcs = sources(ctx, &mut rng);
    let mut k = 0;
    for src in srcs.iter() {
        let inp = match make_input(format!("c10-{}", k), src, &mut rng) {
            Some(i) => i,
            None => continue,
        };
        k += 1;
        one_case(&inp, &mut qrng, out);
        // models reached by a unit-clause edit (C11), for a sample of the inputs
        if k % 4 == 0 && inp.n >= 1 {
            let v = 1 + rng.below(inp.n as u64) as i32;
            let l = if rng.coin() { v } else { -v };
            one_case_edit(&inp, Some(l), &mut qrng, out);
        }
    }
}
