//! C09: t-wise sampling.  Every run of the sampler is a different exploration (hash-set iteration
//! order, thread RNG), so the same request is repeated; every returned sample is recorded and
//! judged by the verified result checker (extracted `twise_ok`) and by an independent brute force.
//!   c09      C01 input space x t x {plain (library), plain (stream), fitness (stream `t-wise l t f ..`)}
//!   c09iter  TIndicesIter / TInteractionIter against Model/TIter.v (needs hook H7; build.rs sets
//!            cfg(verif_h7) when the hook is present in the ddnnife sources the harness is built against)
use crate::common::*;
use crate::k_c01::{make_input, sources, Input};
use crate::rng::Rng;
use ddnnife::ddnnf::anomalies::t_wise_sampling::SamplingResult;
use std::fmt::Write as _;
use std::io::Write;

pub const KINDS: &[&str] = &["c09", "c09iter"];

#[cfg(verif_h9)]
fn twise_log_start() {
    ddnnife::ddnnf::anomalies::t_wise_sampling::verif_twise::verif_twise_log_start();
}
#[cfg(verif_h9)]
fn twise_log_take() -> Option<Vec<String>> {
    Some(ddnnife::ddnnf::anomalies::t_wise_sampling::verif_twise::verif_twise_log_take())
}
// hook H9 (repo_patches/H9-twise-choice-log.patch) absent: no replay, post-condition check only
#[cfg(not(verif_h9))]
fn twise_log_start() {}
#[cfg(not(verif_h9))]
fn twise_log_take() -> Option<Vec<String>> {
    None
}

fn cfgs_text(cfgs: &[Vec<i32>]) -> String {
    cfgs.iter().map(|c| join(c)).collect::<Vec<_>>().join(" ; ")
}

fn result_text(r: &SamplingResult) -> String {
    match r {
        SamplingResult::Empty => "EMPTY".to_string(),
        SamplingResult::Void => "VOID".to_string(),
        SamplingResult::ResultWithSample(s) => {
            let cfgs: Vec<Vec<i32>> = s.iter().map(|c| c.get_literals().to_vec()).collect();
            format!("S {}", cfgs_text(&cfgs))
        }
    }
}

/// what the stream printed: "true" / "false" / one configuration per line / an error text
fn stream_text(out: &str) -> String {
    if out == "true" {
        return "EMPTY".to_string();
    }
    if out == "false" {
        return "VOID".to_string();
    }
    let mut cfgs: Vec<Vec<i32>> = Vec::new();
    for line in out.split('\n') {
        let mut c = Vec::new();
        for tok in line.split_whitespace() {
            match tok.parse::<i32>() {
                Ok(x) => c.push(x),
                Err(_) => return format!("ERROR {}", out.replace('\n', " / ")),
            }
        }
        cfgs.push(c);
    }
    format!("S {}", cfgs_text(&cfgs))
}

/// integer-valued fitness vectors: ties, negatives, mixed
fn fitness_vectors(rng: &mut Rng, n: u32, how_many: usize) -> Vec<Vec<i32>> {
    let mut v = Vec::new();
    for k in 0..how_many {
        let f: Vec<i32> = match (k + rng.below(5) as usize) % 5 {
            0 => vec![1; n as usize],                                              // all tied
            1 => (0..n).map(|_| -(1 + rng.below(3) as i32)).collect(),             // all negative
            2 => (0..n).map(|_| rng.range(-3, 3) as i32).collect(),                // mixed, many ties
            3 => (0..n).map(|i| if i % 2 == 0 { 2 } else { -2 }).collect(),        // two classes
            _ => (0..n).map(|_| rng.range(-20, 20) as i32).collect(),              // mostly distinct
        };
        v.push(f);
    }
    v
}

fn tmax_for(n: u32, quick: bool) -> usize {
    let top = if quick { 3 } else { 5 };
    let by_n = if n <= 8 {
        5
    } else if n <= 12 {
        3
    } else {
        2
    };
    top.min(by_n)
}

fn run_twise(ctx: &Ctx, out: &mut dyn Write) {
    let mut rng = Rng::new(ctx.seed ^ 0x5eed_0009);
    let quick = ctx.tier != "thorough";
    let srcs = sources(ctx, &mut rng);
    let reps = if quick { 3 } else { 4 };
    let mut k = 0;
    for src in srcs.iter() {
        if src.n > 14 {
            continue; // no truth table for the oracle
        }
        // thorough tier: the 65535 functions over 4 features are subsampled (1 in 16)
        if !quick && src.desc.starts_with("table n=4") && !rng.chance(1, 16) {
            continue;
        }
        // one input in eight is a c2d file that keeps a false node (a zero-count node below an or node)
        let c2d_false = rng.chance(1, 8);
        let made = if c2d_false {
            crate::k_c01::make_input_class(format!("c09-s{}-{}", ctx.seed, k), src, &mut rng, true)
        } else {
            make_input(format!("c09-s{}-{}", ctx.seed, k), src, &mut rng)
        };
        let inp: Input = match made {
            Some(i) => i,
            None => continue,
        };
        k += 1;
        let mut s = String::new();
        writeln!(s, "case {} C09", inp.id).unwrap();
        writeln!(s, "info {}", inp.desc).unwrap();
        writeln!(s, "n {}", inp.n).unwrap();
        if let Some(m) = &inp.models {
            writeln!(s, "src_count {}", m.len()).unwrap();
            writeln!(s, "src_models {}", join(m)).unwrap();
        }
        s.push_str(&file_block(inp.format, &inp.lines));
        match load(&inp.lines, Some(inp.n)) {
            Err(e) => writeln!(s, "impl panic {}", e).unwrap(),
            Ok(mut d) => {
                s.push_str(&dump_circuit(&d));
                for t in 1..=tmax_for(inp.n, quick) {
                    for _ in 0..reps {
                        writeln!(s, "op twise {} plain", t).unwrap();
                        twise_log_start();
                        let res = guarded(|| result_text(&d.sample_t_wise(t)));
                        // hook H9: the order decisions of this run (hash-set iteration, sort ties,
                        // shuffle, trim), replayed by chk_c09 as the oracles of the extracted model
                        match twise_log_take() {
                            Some(log) => {
                                writeln!(s, "olog {}", log.len()).unwrap();
                                for l in log {
                                    writeln!(s, "o {}", l).unwrap();
                                }
                            }
                            None => writeln!(s, "olog absent").unwrap(),
                        }
                        match res {
                            Ok(r) => writeln!(s, "r {}", r).unwrap(),
                            Err(e) => writeln!(s, "panic {}", e).unwrap(),
                        }
                    }
                    {
                        writeln!(s, "op twise {} stream", t).unwrap();
                        let msg = format!("t-wise l {}", t);
                        match guarded(|| stream_text(&d.handle_stream_msg(&msg))) {
                            Ok(r) => writeln!(s, "r {}", r).unwrap(),
                            Err(e) => writeln!(s, "panic {}", e).unwrap(),
                        }
                    }
                    for f in fitness_vectors(&mut rng, inp.n, if quick { 2 } else { 3 }) {
                        for _ in 0..reps {
                            writeln!(s, "op twise {} fitness {}", t, join(&f)).unwrap();
                            let msg = format!("t-wise l {} f {}", t, join(&f));
                            twise_log_start();
                            let res = guarded(|| stream_text(&d.handle_stream_msg(&msg)));
                            // hook H9: only the trim decision and the shuffle are not determined by the input
                            match twise_log_take() {
                                Some(log) => {
                                    writeln!(s, "olog {}", log.len()).unwrap();
                                    for l in log {
                                        writeln!(s, "o {}", l).unwrap();
                                    }
                                }
                                None => writeln!(s, "olog absent").unwrap(),
                            }
                            match res {
                                Ok(r) => writeln!(s, "r {}", r).unwrap(),
                                Err(e) => writeln!(s, "panic {}", e).unwrap(),
                            }
                        }
                    }
                }
            }
        }
        writeln!(s, "end").unwrap();
        out.write_all(s.as_bytes()).unwrap();
    }
}

/// K36 (repaired by F13): an and-node that lists its (variable-free) true child twice is a legal d-DNNF
/// for the loader; before the repair remove_unneeded removed the child's sample once per occurrence
/// and panicked.  Now a normal run: recorded, replayed in the model, judged by the oracle.
fn run_repeated_child(out: &mut dyn Write) {
    run_repeated_child_file(out, "c09-repeated-child", "x1 & x2 & true & true, the true node listed twice",
                            &["nnf 4 4 2", "A 0", "L 1", "L 2", "A 4 0 0 1 2"], &[3]);
    // (x1 | -x1) & (x2 | -x2) with the true node listed twice between the or-nodes
    run_repeated_child_file(out, "c09-repeated-child-free", "(x1|-x1) & true & (x2|-x2) & true",
                            &["nnf 8 9 2", "A 0", "L 1", "L -1", "O 1 2 1 2", "L 2", "L -2", "O 2 2 4 5", "A 4 0 3 0 6"], &[0, 1, 2, 3]);
}

fn run_repeated_child_file(out: &mut dyn Write, id: &str, what: &str, file: &[&str], models: &[u32]) {
    let lines: Vec<String> = file.iter().map(|l| l.to_string()).collect();
    let mut s = String::new();
    writeln!(s, "case {} C09", id).unwrap();
    writeln!(s, "info hand-made c2d file: {}", what).unwrap();
    writeln!(s, "n 2").unwrap();
    writeln!(s, "src_count {}", models.len()).unwrap();
    writeln!(s, "src_models {}", join(models)).unwrap();
    s.push_str(&file_block("c2d", &lines));
    match load(&lines, Some(2)) {
        Err(e) => writeln!(s, "impl panic {}", e).unwrap(),
        Ok(mut d) => {
            s.push_str(&dump_circuit(&d));
            for t in 1..=3 {
                writeln!(s, "op twise {} plain", t).unwrap();
                twise_log_start();
                let res = guarded(|| result_text(&d.sample_t_wise(t)));
                match twise_log_take() {
                    Some(log) => {
                        writeln!(s, "olog {}", log.len()).unwrap();
                        for l in log {
                            writeln!(s, "o {}", l).unwrap();
                        }
                    }
                    None => writeln!(s, "olog absent").unwrap(),
                }
                match res {
                    Ok(r) => writeln!(s, "r {}", r).unwrap(),
                    Err(e) => writeln!(s, "panic {}", e).unwrap(),
                }
                if t <= 2 {
                    // the fitness variant shares remove_unneeded
                    writeln!(s, "op twise {} fitness 1 -1", t).unwrap();
                    let msg = format!("t-wise l {} f 1 -1", t);
                    twise_log_start();
                    let res = guarded(|| stream_text(&d.handle_stream_msg(&msg)));
                    match twise_log_take() {
                        Some(log) => {
                            writeln!(s, "olog {}", log.len()).unwrap();
                            for l in log {
                                writeln!(s, "o {}", l).unwrap();
                            }
                        }
                        None => writeln!(s, "olog absent").unwrap(),
                    }
                    match res {
                        Ok(r) => writeln!(s, "r {}", r).unwrap(),
                        Err(e) => writeln!(s, "panic {}", e).unwrap(),
                    }
                }
            }
        }
    }
    writeln!(s, "end").unwrap();
    out.write_all(s.as_bytes()).unwrap();
}

/// does `usize` subtraction panic on underflow in this build (dev profile) or wrap (release)?
fn overflow_checks() -> bool {
    guarded(|| {
        let a: usize = std::hint::black_box(0);
        let b: usize = std::hint::black_box(1);
        std::hint::black_box(a - b)
    })
    .is_err()
}

#[cfg(verif_h7)]
fn run_iter(ctx: &Ctx, out: &mut dyn Write) {
    use ddnnife::ddnnf::anomalies::t_wise_sampling::{verif_t_indices, verif_t_interactions};
    let mut rng = Rng::new(ctx.seed ^ 0x5eed_0109);
    let dbg = overflow_checks() as u8;
    let top = if ctx.tier != "thorough" { 7 } else { 9 };
    for m in 0..=top {
        let mut s = String::new();
        writeln!(s, "case c09iter-{}-{} C09I", if overflow_checks() { "dev" } else { "rel" }, m).unwrap();
        writeln!(s, "info TIndicesIter / TInteractionIter, slice length {}", m).unwrap();
        writeln!(s, "hook 1").unwrap();
        writeln!(s, "dbg {}", dbg).unwrap();
        for t in 0..=top {
            writeln!(s, "op titer {} {}", m, t).unwrap();
            match guarded(|| verif_t_indices(m, t)) {
                Ok(r) => {
                    let txt: Vec<String> = r.iter().map(|x| join(x)).collect();
                    writeln!(s, "r {} | {}", r.len(), txt.join(" ; ")).unwrap()
                }
                Err(e) => writeln!(s, "panic {}", e).unwrap(),
            }
            // a literal slice as the sampler builds them: distinct non-zero literals in random order
            let mut lits: Vec<i32> = (1..=m as i32).map(|v| if rng.coin() { v } else { -v }).collect();
            rng.shuffle(&mut lits);
            writeln!(s, "op tinter {} | {}", t, join(&lits)).unwrap();
            match guarded(|| verif_t_interactions(&lits, t)) {
                Ok(r) => {
                    let txt: Vec<String> = r.iter().map(|x| join(x)).collect();
                    writeln!(s, "r {} | {}", r.len(), txt.join(" ; ")).unwrap()
                }
                Err(e) => writeln!(s, "panic {}", e).unwrap(),
            }
        }
        writeln!(s, "end").unwrap();
        out.write_all(s.as_bytes()).unwrap();
    }
}

#[cfg(not(verif_h7))]
fn run_iter(_ctx: &Ctx, out: &mut dyn Write) {
    // hook H7 (repo_patches/H7-titer.patch) is not in the sources the harness was built against:
    // the iterator is private to the crate; the correspondence is skipped and says so.
    let _ = overflow_checks();
    let s = "case c09iter-nohook C09I\ninfo hook H7 absent: TIndicesIter is not reachable from outside the crate\nhook 0\nend\n";
    out.write_all(s.as_bytes()).unwrap();
}

pub fn run(kind: &str, ctx: &Ctx, out: &mut dyn Write) {
    match kind {
        "c09iter" => run_iter(ctx, out),
        _ => {
            run_repeated_child(out);
            run_twise(ctx, out)
        }
    }
}
