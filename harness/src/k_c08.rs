//! C08 (atomic sets): `get_atomic_sets` in plain and cross mode with the choices of its internal
//! 512-sample call recorded (hook H2), the stream commands `atomic` / `atomic-cross`, a generator
//! class of "nearly equivalent" features (equal counts, different on 2 of > 1000 models, so the 512
//! samples frequently do not separate them and only the confirmation query does), and one
//! 40 000-feature model for the `as i16` finding K1.
use crate::common::*;
use crate::k_c01::{make_input, sources, Input, Source};
use crate::k_enum::fmt_choices;
use crate::k_ops::{all_partial, random_list};
use crate::rng::Rng;
use ddnnife::ddnnf::anomalies::config_creation::verif as hook;
use ddnnife::Ddnnf;
use std::fmt::Write as _;
use std::io::Write;

pub const KINDS: &[&str] = &["c08"];

fn fmt_sets(v: &[Vec<i16>]) -> String {
    if v.is_empty() {
        return "empty".to_string();
    }
    v.iter().map(|c| join(c)).collect::<Vec<_>>().join(" ; ")
}

fn fmt_cands(c: &Option<Vec<u32>>) -> String {
    match c {
        None => "all".to_string(),
        Some(v) => join(v),
    }
}

pub fn run_atomic(d: &mut Ddnnf, cands: &Option<Vec<u32>>, a: &[i32], cross: bool, with_choices: bool, s: &mut String) {
    writeln!(s, "op atomic {} | {} | {}", cross as u8, fmt_cands(cands), join(a)).unwrap();
    hook::start_choice_log();
    let c2 = cands.clone();
    let r = guarded(|| d.get_atomic_sets(c2, a, cross));
    let ch = hook::take_choice_log();
    match r {
        Ok(l) => writeln!(s, "r {}", fmt_sets(&l)).unwrap(),
        Err(e) => writeln!(s, "panic {}", e).unwrap(),
    }
    if with_choices {
        writeln!(s, "ch {}", fmt_choices(&ch)).unwrap();
    }
    let clean = d.verif_markers().iter().all(|m| !m) && d.md.is_empty();
    writeln!(s, "clean {}", clean as u8).unwrap();
}

/// the same request through the stream line handler
pub fn run_atomic_stream(d: &mut Ddnnf, cands: &Option<Vec<u32>>, a: &[i32], cross: bool, s: &mut String) {
    writeln!(s, "op atomic-stream {} | {} | {}", cross as u8, fmt_cands(cands), join(a)).unwrap();
    let mut msg = String::from(if cross { "atomic-cross" } else { "atomic" });
    if let Some(c) = cands {
        write!(msg, " v {}", join(c)).unwrap();
    }
    if !a.is_empty() {
        write!(msg, " a {}", join(a)).unwrap();
    }
    hook::start_choice_log();
    let r = guarded(|| d.handle_stream_msg(&msg));
    let ch = hook::take_choice_log();
    match r {
        Ok(t) => {
            if t.is_empty() {
                writeln!(s, "r empty").unwrap()
            } else if t.starts_with('E') {
                writeln!(s, "r error {}", t).unwrap()
            } else {
                writeln!(s, "r {}", t.replace(';', " ; ")).unwrap()
            }
        }
        Err(e) => writeln!(s, "panic {}", e).unwrap(),
    }
    writeln!(s, "ch {}", fmt_choices(&ch)).unwrap();
    let clean = d.verif_markers().iter().all(|m| !m) && d.md.is_empty();
    writeln!(s, "clean {}", clean as u8).unwrap();
}

fn count_under(models: &[u32], a: &[i32]) -> usize {
    models
        .iter()
        .filter(|&&m| {
            a.iter().all(|&l| {
                let bit = (m >> (l.unsigned_abs() - 1)) & 1 == 1;
                if l > 0 { bit } else { !bit }
            })
        })
        .count()
}

fn subsets(n: u32) -> Vec<Vec<u32>> {
    (0..(1u32 << n))
        .map(|mask| (1..=n).filter(|v| (mask >> (v - 1)) & 1 == 1).collect())
        .collect()
}

fn random_subset(rng: &mut Rng, n: u32) -> Vec<u32> {
    let mut v: Vec<u32> = (1..=n).filter(|_| rng.chance(2, 3)).collect();
    rng.shuffle(&mut v); // the candidate order is not ascending in general
    v
}

/// (x <-> y) or (z_1 and ... and z_k): count(x) = count(y) = 2^k + 1, x and y differ on exactly 2
/// of the 2^(k+1) + 2 models.  Variables are placed at random among 1..n.
fn near_equivalence(rng: &mut Rng, k: u32, extra: u32) -> Source {
    let n = k + 2;
    let mut vars: Vec<i32> = (1..=n as i32).collect();
    rng.shuffle(&mut vars);
    let (x, y) = (vars[0], vars[1]);
    let mut cnf = Vec::new();
    for &z in &vars[2..] {
        cnf.push(vec![-x, y, z]);
        cnf.push(vec![x, -y, z]);
    }
    Source { cnf, n: n + extra, desc: format!("near-equivalence k={} x={} y={} extra={}", k, x, y, extra) }
}

fn header(inp: &Input, s: &mut String) {
    writeln!(s, "case {} C08", inp.id).unwrap();
    writeln!(s, "info {}", inp.desc).unwrap();
    writeln!(s, "n {}", inp.n).unwrap();
    if let Some(m) = &inp.models {
        writeln!(s, "src_count {}", m.len()).unwrap();
        if inp.n <= 14 {
            writeln!(s, "src_models {}", join(m)).unwrap();
        }
    }
    s.push_str(&file_block(inp.format, &inp.lines));
}

/// the requests for one loaded model
fn requests(inp: &Input, rng: &mut Rng, quick: bool, special: bool) -> Vec<(Option<Vec<u32>>, Vec<i32>, bool)> {
    let n = inp.n;
    let mut reqs: Vec<(Option<Vec<u32>>, Vec<i32>, bool)> = Vec::new();
    let models: &[u32] = inp.models.as_deref().unwrap_or(&[]);
    if special {
        // all features and a few candidate subsets, no / one assumption
        for cross in [false, true] {
            reqs.push((None, vec![], cross));
        }
        reqs.push((Some(random_subset(rng, n)), vec![], false));
        reqs.push((None, random_list(rng, n, 1, true), false));
        return reqs;
    }
    // assumption lists of length 0..3: all consistent ones on small models, random beyond
    let mut lists: Vec<Vec<i32>> = if n <= 4 {
        all_partial(n).into_iter().filter(|a| a.len() <= 3).collect()
    } else {
        let mut l = vec![vec![]];
        for _ in 0..12 {
            let len = rng.below(4) as usize;
            l.push(random_list(rng, n, len, true));
        }
        l
    };
    // the property speaks about satisfiable assumption lists: keep those (unsatisfiable ones are
    // added separately below)
    if !models.is_empty() {
        lists.retain(|a| count_under(models, a) > 0);
    }
    // candidate sets: all subsets on small models, random beyond, plus None (= all features)
    let cand_sets: Vec<Option<Vec<u32>>> = if n <= 4 {
        let mut v: Vec<Option<Vec<u32>>> = subsets(n).into_iter().map(Some).collect();
        v.push(None);
        v
    } else {
        let mut v: Vec<Option<Vec<u32>>> = vec![None];
        for _ in 0..5 {
            v.push(Some(random_subset(rng, n)));
        }
        v
    };
    let exhaustive = !quick && n <= 3;
    if exhaustive {
        for a in &lists {
            for c in &cand_sets {
                for cross in [false, true] {
                    let mut a2 = a.clone();
                    rng.shuffle(&mut a2);
                    reqs.push((c.clone(), a2, cross));
                }
            }
        }
    } else {
        rng.shuffle(&mut lists);
        let budget = if quick { if n <= 4 { 30 } else { 12 } } else { 40 };
        for i in 0..budget {
            let mut a = lists[i % lists.len()].clone();
            rng.shuffle(&mut a);
            let c = cand_sets[rng.below(cand_sets.len() as u64) as usize].clone();
            // candidates in a shuffled order now and then
            let c = c.map(|mut v| {
                if rng.chance(1, 3) {
                    rng.shuffle(&mut v);
                }
                v
            });
            reqs.push((c, a, rng.coin()));
        }
        // always: all features, no assumptions, both modes
        reqs.push((None, vec![], false));
        reqs.push((None, vec![], true));
    }
    // a few unsatisfiable / contradictory assumption lists (outside the property's precondition:
    // model = implementation is still required)
    if n >= 1 && rng.chance(1, 3) {
        reqs.push((None, vec![1, -1], rng.coin()));
        if !models.is_empty() {
            for _ in 0..4 {
                let a = random_list(rng, n, 3, true);
                if count_under(models, &a) == 0 {
                    reqs.push((None, a, rng.coin()));
                    break;
                }
            }
        }
    }
    // candidates outside 1..n (outside the property's precondition; exercises the modelled index
    // panics: `signed_excludes[|x| - 1]` with x = 0 or |x| > n)
    if rng.chance(1, 8) {
        let mut c: Vec<u32> = (1..=n).collect();
        c.push(if rng.coin() { 0 } else { n + 1 });
        rng.shuffle(&mut c);
        reqs.push((Some(c), vec![], rng.coin()));
    }
    reqs
}

fn k1_case(out: &mut dyn Write, quick: bool) {
    // 40 000 features, x39999 <-> x40000 and x25536 <-> x25537, everything else free (d4 format;
    // the loader adds the free features).  39999 and 40000 wrap to -25537 and -25536, whose sign
    // vectors agree on every sample because 25536 <-> 25537.  The circuit is not dumped and the
    // choices are not recorded (the root And has ~40 000 children); the checker judges the answers
    // against the source formula only.
    let n = 40000u32;
    let lines: Vec<String> = vec![
        "a 1 0".into(),
        "o 2 0".into(),
        "o 3 0".into(),
        "t 4 0".into(),
        "1 2 0".into(),
        "1 3 0".into(),
        "2 4 39999 40000 0".into(),
        "2 4 -39999 -40000 0".into(),
        "3 4 25536 25537 0".into(),
        "3 4 -25536 -25537 0".into(),
    ];
    let mut s = String::new();
    writeln!(s, "case c08-k1 C08BIG").unwrap();
    writeln!(s, "info 40000 features, 39999 <-> 40000, 25536 <-> 25537, all other features free").unwrap();
    writeln!(s, "n {}", n).unwrap();
    writeln!(s, "src_clause 39999 -40000").unwrap();
    writeln!(s, "src_clause -39999 40000").unwrap();
    writeln!(s, "src_clause 25536 -25537").unwrap();
    writeln!(s, "src_clause -25536 25537").unwrap();
    s.push_str(&file_block("d4", &lines));
    match load(&lines, Some(n)) {
        Err(e) => writeln!(s, "impl panic {}", e).unwrap(),
        Ok(mut d) => {
            writeln!(s, "impl nvars {}", d.number_of_variables).unwrap();
            writeln!(s, "impl rc_bits {}", d.rc().bits()).unwrap();
            run_atomic(&mut d, &Some(vec![39999, 40000]), &[], false, false, &mut s);
            if !quick {
                run_atomic(&mut d, &Some(vec![5, 39999, 40000, 7]), &[5], false, false, &mut s);
            }
            // below the bound the same shape is answered correctly
            run_atomic(&mut d, &Some(vec![32766, 32767]), &[32766, 32767], false, false, &mut s);
        }
    }
    writeln!(s, "end").unwrap();
    out.write_all(s.as_bytes()).unwrap();
}

pub fn run(_kind: &str, ctx: &Ctx, out: &mut dyn Write) {
    let mut rng = Rng::new(ctx.seed ^ 0x5eed_0008);
    let quick = ctx.tier != "thorough";
    let mut srcs: Vec<(Source, bool)> = sources(ctx, &mut rng).into_iter().map(|s| (s, false)).collect();
    // thorough: the exhaustive n = 4 functions are sampled (1 in 64), everything else is kept
    if !quick {
        let mut kept = Vec::new();
        for (s, sp) in srcs.into_iter() {
            if s.desc.starts_with("table n=4") && !rng.chance(1, 64) {
                continue;
            }
            kept.push((s, sp));
        }
        srcs = kept;
    }
    // nearly equivalent features
    for i in 0..(if quick { 10 } else { 60 }) {
        let k = 9 + (i % 3) as u32; // 9, 10, 11 -> 1026, 2050, 4098 models
        let extra = rng.below(2) as u32;
        srcs.push((near_equivalence(&mut rng, k, extra), true));
    }
    let mut k = 0;
    let mut nreq = 0usize;
    for (src, special) in srcs.iter() {
        let inp = match make_input(format!("c08-{}", k), src, &mut rng) {
            Some(i) => i,
            None => continue,
        };
        k += 1;
        let mut s = String::new();
        header(&inp, &mut s);
        match load(&inp.lines, Some(inp.n)) {
            Err(e) => writeln!(s, "impl panic {}", e).unwrap(),
            Ok(mut d) => {
                s.push_str(&dump_circuit(&d));
                let reqs = requests(&inp, &mut rng, quick, *special);
                for (i, (c, a, cross)) in reqs.iter().enumerate() {
                    nreq += 1;
                    // one request in eight also goes through the stream line handler
                    // (explicit candidates must be non-empty there: `v` without numbers is None,
                    // and within 1..n: the stream handler rejects anything else with E3 before the call)
                    let streamable = c.as_ref().map_or(true, |v| !v.is_empty() && v.iter().all(|&f| f >= 1 && f <= inp.n));
                    if streamable && (i % 8 == 3) {
                        run_atomic_stream(&mut d, c, a, *cross, &mut s);
                    } else {
                        run_atomic(&mut d, c, a, *cross, true, &mut s);
                    }
                }
            }
        }
        writeln!(s, "end").unwrap();
        out.write_all(s.as_bytes()).unwrap();
    }
    // K1: quick tier too (loading 40 000 features and three requests take a few seconds)
    let t0 = std::time::Instant::now();
    k1_case(out, quick);
    eprintln!("c08: {} requests on {} models; K1 case {:.1}s", nreq, k, t0.elapsed().as_secs_f64());
}
