//! C14: stream mode as a black box.  Builds the real `ddnnife` binary (cargo feature `verif`, hook
//! H4) from the repo's current tree, runs `ddnnife -i VP9_d4.nnf -t 42 stream -j N` as a child
//! process on batches of request lines under varying schedules (worker count, seeded delays at
//! the H4 delay points, CPU contention, paced stdin, with/without a final `exit`) and records
//! stdin, stdout, the H4 event log and the answers of a lock-step single-worker reference run.
use crate::common::*;
use crate::rng::Rng;
use std::fmt::Write as _;
use std::io::{BufRead, BufReader, Write};
use std::path::{Path, PathBuf};
use std::process::{Child, Command, Stdio};
use std::sync::atomic::{AtomicBool, AtomicUsize, Ordering};
use std::sync::{Arc, Mutex};
use std::time::{Duration, Instant};

pub const KINDS: &[&str] = &["c14"];

fn repo() -> String {
    std::env::var("VERIF_REPO").unwrap_or_else(|_| "/repo".to_string())
}

fn root() -> PathBuf {
    Path::new(env!("CARGO_MANIFEST_DIR")).parent().unwrap().to_path_buf()
}

/// `cargo build -p ddnnife_bin --features verif` of the repo's current tree
pub fn build_binary() -> Result<PathBuf, String> {
    // one target directory per source tree: cargo's freshness test does not notice that the same
    // workspace is now read from another path
    let tag: String = repo().chars().map(|c| if c.is_ascii_alphanumeric() { c } else { '_' }).collect();
    let target = root().join(".cache").join(if repo() == "/repo" { "target-bin".to_string() } else { format!("target-bin{tag}") });
    let out = Command::new("cargo")
        .args(["build", "--offline", "-p", "ddnnife_bin", "--features", "verif", "--manifest-path"])
        .arg(format!("{}/Cargo.toml", repo()))
        .arg("--target-dir")
        .arg(&target)
        .env("CARGO_NET_OFFLINE", "true")
        .output()
        .map_err(|e| format!("cargo: {e}"))?;
    if !out.status.success() {
        let err = String::from_utf8_lossy(&out.stderr);
        let tail: String = err.lines().rev().take(12).collect::<Vec<_>>().join(" | ");
        return Err(format!("cargo build of ddnnife_bin failed: {tail}"));
    }
    let bin = target.join("debug").join("ddnnife");
    if bin.exists() {
        Ok(bin)
    } else {
        Err(format!("{} missing after the build", bin.display()))
    }
}

const NFEAT: i64 = 42;

fn lits(rng: &mut Rng, max: u64, signed: bool) -> String {
    let k = 1 + rng.below(max);
    let mut v: Vec<i64> = Vec::new();
    while (v.len() as u64) < k {
        let f = rng.range(1, NFEAT);
        if v.iter().any(|x: &i64| x.abs() == f) {
            continue;
        }
        v.push(if signed && rng.coin() { -f } else { f });
    }
    join(&v)
}

/// one request line that neither pages nor edits; whitespace-normalised; cost from ~0.1 ms
/// (count, sat) to ~40 ms (atomic sets) in a debug build
fn gen_line(rng: &mut Rng, heavy_per_mille: u64) -> String {
    let r = rng.below(1000);
    if r < heavy_per_mille {
        return match rng.below(4) {
            0 => "atomic".to_string(),
            1 => format!("atomic a {}", lits(rng, 2, true)),
            2 => format!("atomic v {}", lits(rng, 12, false)),
            _ => "atomic-cross".to_string(),
        };
    }
    match rng.below(20) {
        0 => "count".to_string(),
        1..=4 => format!("count a {}", lits(rng, 6, true)),
        5 => format!("count v {}", lits(rng, 10, true)),
        6 => format!("count a {} v {}", lits(rng, 3, true), lits(rng, 4, true)),
        7 => "sat".to_string(),
        8..=9 => format!("sat a {}", lits(rng, 8, true)),
        10 => "core".to_string(),
        11..=12 => format!("core a {}", lits(rng, 4, true)),
        13 => format!("random seed {}", rng.below(1000)),
        14..=15 => format!("random seed {} limit {}", rng.below(50), 1 + rng.below(40)),
        16 => format!("random a {} seed {} limit {}", lits(rng, 3, true), rng.below(9), 1 + rng.below(5)),
        17 => format!("sat v {}", lits(rng, 10, true)),
        18 => match rng.below(6) {
            0 => "count a 100".to_string(),
            1 => "frobnicate".to_string(),
            2 => "exit now".to_string(),
            3 => "Exit".to_string(),
            4 => "count a".to_string(),
            _ => "random seed x".to_string(),
        },
        _ => format!("count a {}", lits(rng, 20, true)),
    }
}

#[derive(Clone, Debug)]
enum Pace {
    /// the whole input in one write
    AllAtOnce,
    /// chunks of the given size with a pause (us) between them
    Chunks(usize, u64),
    /// everything but the last k lines, wait until those are answered, then the rest (+ exit)
    TailAfterDrain(usize),
    /// all lines, wait until all but `k` are answered, then exit / close
    EndAfterDrain(usize),
}

#[derive(Clone, Debug)]
struct RunCfg {
    jobs: u32,
    final_exit: bool,
    junk_after_exit: usize,
    /// the input does not end with a line break (the last line, or the final `exit`, is unterminated)
    unterminated: bool,
    delay_seed: Option<u64>,
    max_us: u64,
    pace: Pace,
    busy: usize,
}

struct RunOut {
    out: Vec<String>,
    events: Vec<String>,
    status: String,
    wall_ms: u128,
}

fn wait_answers(seen: &AtomicUsize, want: usize, limit: Duration) {
    let t0 = Instant::now();
    while seen.load(Ordering::SeqCst) < want && t0.elapsed() < limit {
        std::thread::sleep(Duration::from_micros(200));
    }
}

fn run_child(bin: &Path, model: &Path, lines: &[String], cfg: &RunCfg, log: Option<&Path>, timeout: Duration) -> RunOut {
    let mut cmd = Command::new(bin);
    cmd.arg("-i").arg(model).args(["-t", "42", "stream", "-j"]).arg(cfg.jobs.to_string());
    cmd.stdin(Stdio::piped()).stdout(Stdio::piped()).stderr(Stdio::null());
    cmd.env_remove("VERIF_EVENT_LOG").env_remove("VERIF_DELAY_SEED").env_remove("VERIF_DELAY_MAX_US");
    if let Some(p) = log {
        let _ = std::fs::remove_file(p);
        cmd.env("VERIF_EVENT_LOG", p);
    }
    if let Some(s) = cfg.delay_seed {
        cmd.env("VERIF_DELAY_SEED", s.to_string()).env("VERIF_DELAY_MAX_US", cfg.max_us.to_string());
    }
    let t0 = Instant::now();
    let mut child: Child = match cmd.spawn() {
        Ok(c) => c,
        Err(e) => {
            return RunOut { out: vec![], events: vec![], status: format!("spawn-failed {e}"), wall_ms: 0 };
        }
    };
    let mut stdin = child.stdin.take().unwrap();
    let stdout = child.stdout.take().unwrap();
    let child = Arc::new(Mutex::new(child));
    let seen = Arc::new(AtomicUsize::new(0));
    let done = Arc::new(AtomicBool::new(false));
    let timed_out = Arc::new(AtomicBool::new(false));
    let spinning = Arc::new(AtomicBool::new(true));
    let mut out = Vec::new();
    std::thread::scope(|sc| {
        // CPU contention
        for _ in 0..cfg.busy {
            let sp = spinning.clone();
            sc.spawn(move || {
                let mut x = 1u64;
                while sp.load(Ordering::Relaxed) {
                    for _ in 0..2000 {
                        x = x.wrapping_mul(6364136223846793005).wrapping_add(1442695040888963407);
                    }
                    std::hint::black_box(x);
                }
            });
        }
        // watchdog
        {
            let (done, timed_out, child) = (done.clone(), timed_out.clone(), child.clone());
            sc.spawn(move || {
                while !done.load(Ordering::SeqCst) {
                    if t0.elapsed() > timeout {
                        timed_out.store(true, Ordering::SeqCst);
                        let _ = child.lock().unwrap().kill();
                        return;
                    }
                    std::thread::sleep(Duration::from_millis(20));
                }
            });
        }
        // stdin writer
        {
            let seen = seen.clone();
            let cfg = cfg.clone();
            sc.spawn(move || {
                let n = lines.len();
                let bare_last = cfg.unterminated && !cfg.final_exit;
                let send = |from: usize, to: usize, stdin: &mut std::process::ChildStdin| {
                    let mut s = String::new();
                    for l in &lines[from..to] {
                        s.push_str(l);
                        s.push('\n');
                    }
                    if bare_last && to == n && to > from {
                        s.pop(); // the very last line of the input has no line break
                    }
                    let _ = stdin.write_all(s.as_bytes());
                    let _ = stdin.flush();
                };
                let wait = Duration::from_secs(20);
                match cfg.pace {
                    Pace::AllAtOnce => send(0, n, &mut stdin),
                    Pace::Chunks(sz, pause) => {
                        let mut i = 0;
                        while i < n {
                            let j = (i + sz.max(1)).min(n);
                            send(i, j, &mut stdin);
                            i = j;
                            std::thread::sleep(Duration::from_micros(pause));
                        }
                    }
                    Pace::TailAfterDrain(k) => {
                        let k = k.min(n);
                        send(0, n - k, &mut stdin);
                        wait_answers(&seen, n - k, wait);
                        send(n - k, n, &mut stdin);
                    }
                    Pace::EndAfterDrain(k) => {
                        send(0, n, &mut stdin);
                        wait_answers(&seen, n.saturating_sub(k), wait);
                    }
                }
                if cfg.final_exit {
                    let mut s = String::from("exit\n");
                    for i in 0..cfg.junk_after_exit {
                        let _ = writeln!(s, "count a {}", i + 1);
                    }
                    if cfg.unterminated {
                        s.pop();
                    }
                    let _ = stdin.write_all(s.as_bytes());
                }
                drop(stdin); // end of input
            });
        }
        // stdout reader (this thread)
        let rd = BufReader::new(stdout);
        for l in rd.lines() {
            match l {
                Ok(l) => {
                    out.push(l);
                    seen.fetch_add(1, Ordering::SeqCst);
                }
                Err(_) => break,
            }
        }
        let st = child.lock().unwrap().wait();
        done.store(true, Ordering::SeqCst);
        spinning.store(false, Ordering::SeqCst);
        let status = if timed_out.load(Ordering::SeqCst) {
            "timeout".to_string()
        } else {
            match st {
                Ok(s) => match s.code() {
                    Some(c) => format!("exit {c}"),
                    None => "signal".to_string(),
                },
                Err(e) => format!("wait-failed {e}"),
            }
        };
        let events = match log {
            Some(p) => std::fs::read_to_string(p)
                .map(|t| t.lines().map(|l| l.to_string()).collect())
                .unwrap_or_default(),
            None => vec![],
        };
        RunOut { out: std::mem::take(&mut out), events, status, wall_ms: t0.elapsed().as_millis() }
    })
}

/// single worker, no delays, stdin closed only after every answer has been read
fn reference(bin: &Path, model: &Path, lines: &[String], timeout: Duration) -> RunOut {
    let cfg = RunCfg {
        jobs: 1,
        final_exit: false,
        junk_after_exit: 0,
        unterminated: false,
        delay_seed: None,
        max_us: 0,
        pace: Pace::EndAfterDrain(0),
        busy: 0,
    };
    run_child(bin, model, lines, &cfg, None, timeout)
}

fn batch_size(rng: &mut Rng, thorough: bool) -> usize {
    let r = rng.below(100);
    let n = if r < 35 {
        rng.range(1, 5)
    } else if r < 65 {
        rng.range(6, 40)
    } else if r < 90 {
        rng.range(41, if thorough { 400 } else { 150 })
    } else {
        rng.range(150, if thorough { 2000 } else { 300 })
    };
    n as usize
}

fn gen_cfg(rng: &mut Rng, n: usize, thorough: bool, cores: usize) -> RunCfg {
    let maxj = if thorough { 32 } else { 8 };
    let jobs = match rng.below(6) {
        0 => 1,
        1 => maxj,
        _ => rng.range(1, maxj as i64) as u32,
    };
    let delay_seed = if rng.chance(3, 4) { Some(rng.next() >> 16) } else { None };
    let max_us = *rng.pick(&[20u64, 100, 300, 1000, 3000]);
    let pace = match rng.below(8) {
        0..=2 => Pace::AllAtOnce,
        3 => Pace::Chunks(1 + rng.below(8) as usize, *rng.pick(&[0u64, 50, 300, 2000])),
        4..=5 => Pace::TailAfterDrain(1 + rng.below(3.min(n as u64)) as usize),
        _ => Pace::EndAfterDrain(rng.below(3) as usize),
    };
    let busy = if rng.chance(1, 3) { rng.range(1, 2 * cores as i64) as usize } else { 0 };
    let final_exit = rng.coin();
    RunCfg {
        jobs,
        final_exit,
        junk_after_exit: if final_exit && rng.chance(1, 4) { 1 + rng.below(3) as usize } else { 0 },
        unterminated: rng.chance(1, 4),
        delay_seed,
        max_us,
        pace,
        busy,
    }
}

pub fn run(_kind: &str, ctx: &Ctx, out: &mut dyn Write) {
    let bin = match build_binary() {
        Ok(b) => b,
        Err(e) => {
            eprintln!("c14: {e}");
            std::process::exit(3);
        }
    };
    let model = PathBuf::from(format!("{}/ddnnife/tests/data/VP9_d4.nnf", repo()));
    // the library itself (no stream machinery) answers every line on a fresh clone: the expected
    // i-th output line, independent of the binary's own single-worker run
    let lib_model = guarded(|| ddnnife::Ddnnf::from_file(&model, Some(42))).ok();
    let thorough = ctx.tier == "thorough";
    let cores = std::thread::available_parallelism().map(|n| n.get()).unwrap_or(4);
    let scratch = root().join(".cache").join("run").join("C14-logs");
    std::fs::create_dir_all(&scratch).unwrap();
    let mut rng = Rng::new(ctx.seed);
    let repeats = if thorough { 6 } else { 4 };
    let mut case_no = 0usize;
    let mut hang_batches = 0usize;
    for b in 0..ctx.count {
        // the first batches are the minimal reproduction shape of F3: one cheap line
        let n = if b < 3 { 1 + b } else { batch_size(&mut rng, thorough) };
        let heavy = *rng.pick(&[0u64, 5, 20, 100]);
        let mut lines: Vec<String> = (0..n).map(|_| gen_line(&mut rng, if n > 300 { heavy.min(5) } else { heavy })).collect();
        // duplicates: the same line must get the same answer wherever it is computed
        if n >= 4 {
            for _ in 0..(n / 4) {
                let src = rng.below(n as u64) as usize;
                let dst = rng.below(n as u64) as usize;
                lines[dst] = lines[src].clone();
            }
        }
        // a hanging implementation must not stall the whole check: after the first hang the
        // limit drops, after three batches with hangs the run stops (the cases so far are judged)
        let timeout = Duration::from_secs(if hang_batches > 0 { 8 } else if thorough { 240 } else { 60 });
        let rf = reference(&bin, &model, &lines, timeout);
        let cfgs: Vec<RunCfg> = (0..repeats)
            .map(|r| {
                let mut c = gen_cfg(&mut rng, n, thorough, cores);
                if b < 3 || (r == 0 && n <= 5) {
                    // the shape in which F3 shows most often
                    c.pace = Pace::AllAtOnce;
                    c.delay_seed = Some(rng.next() >> 16);
                    c.max_us = 1000;
                }
                c
            })
            .collect();
        let outs: Vec<RunOut> = std::thread::scope(|sc| {
            let hs: Vec<_> = cfgs
                .iter()
                .enumerate()
                .map(|(r, c)| {
                    let log = scratch.join(format!("ev-{}-{}.log", std::process::id(), r));
                    let (bin, model, lines) = (&bin, &model, &lines);
                    sc.spawn(move || {
                        let o = run_child(bin, model, lines, c, Some(&log), timeout);
                        let _ = std::fs::remove_file(&log);
                        o
                    })
                })
                .collect();
            hs.into_iter().map(|h| h.join().unwrap()).collect()
        });
        if rf.status == "timeout" || outs.iter().any(|o| o.status == "timeout") {
            hang_batches += 1;
        }
        for (c, o) in cfgs.iter().zip(outs.iter()) {
            let mut s = String::new();
            writeln!(s, "case c14-{} C14", case_no).unwrap();
            case_no += 1;
            writeln!(s, "info batch={} n={} heavy={} {:?} wall_ms={} ref_ms={}", b, n, heavy, c, o.wall_ms, rf.wall_ms).unwrap();
            writeln!(s, "jobs {}", c.jobs).unwrap();
            writeln!(s, "final_exit {}", c.final_exit as u8).unwrap();
            for (i, l) in lines.iter().enumerate() {
                writeln!(s, "input {} {}", i, l).unwrap();
            }
            if c.final_exit {
                writeln!(s, "input {} exit", n).unwrap();
                for i in 0..c.junk_after_exit {
                    writeln!(s, "input {} count a {}", n + 1 + i, i + 1).unwrap();
                }
            }
            if let Some(m) = &lib_model {
                for (i, l) in lines.iter().enumerate() {
                    let mut c = m.clone();
                    match guarded(|| c.handle_stream_msg(l)) {
                        Ok(a) => writeln!(s, "expect {} {}", i, a).unwrap(),
                        Err(e) => writeln!(s, "expect {} PANIC {}", i, e).unwrap(),
                    }
                }
            }
            writeln!(s, "ref_status {}", rf.status).unwrap();
            for (i, l) in rf.out.iter().enumerate() {
                writeln!(s, "ref {} {}", i, l).unwrap();
            }
            writeln!(s, "impl status {}", o.status).unwrap();
            for (i, l) in o.out.iter().enumerate() {
                writeln!(s, "impl out {} {}", i, l).unwrap();
            }
            for e in o.events.iter() {
                writeln!(s, "event {}", e).unwrap();
            }
            writeln!(s, "end").unwrap();
            out.write_all(s.as_bytes()).unwrap();
        }
        if hang_batches >= 3 {
            break;
        }
    }
}
