//! ld4: exact correspondence for the d4 LOADER model (coq/Model/LoadD4.v, LexerD4.v).
//! Every d4 input of the C01 input space (same generator, all classes), a hand-written list of
//! boundary files (panics, dead and-chains with different incoming-edge orders, parallel edges,
//! literal 0), structurally random d4 DAGs (not compiled from a formula: the loader's graph
//! surgery does not care) and the small corpus files are loaded through the real parser; the
//! dumped Ddnnf.nodes and number_of_variables go into the block.  A second block kind carries a
//! sample of well-formed and malformed LINES with what lex_line_d4 answered.
use crate::common::*;
use crate::k_c01::{make_input, sources, write_models};
use crate::rng::Rng;
use ddnnife::parser::d4_lexer::{lex_line_d4, D4Token};
use std::fmt::Write as _;
use std::io::Write;

pub const KINDS: &[&str] = &["ld4"];

/// vectors above this size are not compared (the list-based model is quadratic: about 35 s for
/// the 1434 nodes of axTLS)
fn max_nodes(ctx: &Ctx) -> usize {
    if ctx.tier == "thorough" { 1500 } else { 400 }
}

fn emit(ctx: &Ctx, out: &mut dyn Write, id: &str, info: &str, n: u32, lines: &[String]) {
    emit_with(ctx, out, id, info, n, lines, "")
}

fn emit_with(ctx: &Ctx, out: &mut dyn Write, id: &str, info: &str, n: u32, lines: &[String], extra: &str) {
    let mut s = String::new();
    writeln!(s, "case {} LD4", id).unwrap();
    writeln!(s, "info {}", info).unwrap();
    writeln!(s, "n {}", n).unwrap();
    s.push_str(extra);
    s.push_str(&file_block("d4", lines));
    match load(lines, Some(n)) {
        Err(e) => writeln!(s, "impl panic {}", e).unwrap(),
        Ok(d) => {
            if d.nodes.len() > max_nodes(ctx) {
                writeln!(s, "skipped {}", d.nodes.len()).unwrap();
            } else {
                s.push_str(&dump_circuit(&d));
            }
            writeln!(s, "impl nvars {}", d.number_of_variables).unwrap();
        }
    }
    writeln!(s, "end").unwrap();
    out.write_all(s.as_bytes()).unwrap();
}

fn ls(text: &str) -> Vec<String> {
    text.split(" / ").map(|l| l.to_string()).collect()
}

fn hand_cases() -> Vec<(&'static str, u32, Vec<String>)> {
    vec![
        ("lone false root, free features (K9 panic)", 2, ls("f 1 0")),
        ("lone false root, no feature", 0, ls("f 1 0")),
        ("lone true root, no feature", 0, ls("t 1 0")),
        ("lone true root, two free features", 2, ls("t 1 0")),
        ("edge to an undeclared node", 1, ls("o 1 0 / 1 2 1 0")),
        ("edge from node 0", 1, ls("o 1 0 / t 2 0 / 0 2 1 0")),
        ("edge from a negative node", 1, ls("o 1 0 / t 2 0 / -1 2 1 0")),
        ("edge before any declaration", 1, ls("1 2 1 0 / o 1 0 / t 2 0")),
        ("and root with a false child", 0, ls("a 1 0 / f 2 0 / 1 2 0")),
        ("and root with a false child, free feature", 1, ls("a 1 0 / f 2 0 / 1 2 0")),
        ("or root with only a false child", 1, ls("o 1 0 / f 2 0 / 1 2 1 0")),
        ("or root, unlabelled true child", 0, ls("o 1 0 / t 2 0 / 1 2 0")),
        ("or root, unlabelled true child, free feature", 1, ls("o 1 0 / t 2 0 / 1 2 0")),
        // repair F12: an or node with a true child becomes a true node
        ("d4 root idiom for a tautology, three free features", 3, ls("o 1 0 / t 2 0 / 1 2 0")),
        ("or node with an unlabelled edge to t plus labelled edges", 2, ls("o 1 0 / t 2 0 / 1 2 1 0 / 1 2 0 / 1 2 -1 2 0")),
        ("or node with a labelled edge first, then the unlabelled edge to t", 2, ls("o 1 0 / t 2 0 / 1 2 0 / 1 2 1 2 0")),
        ("or->t below an and node", 2, ls("o 1 0 / a 2 0 / o 3 0 / t 4 0 / 3 4 0 / 2 3 0 / 2 4 0 / 1 2 1 0 / 1 4 -1 2 0")),
        ("or->t as the only child of an and node", 1, ls("o 1 0 / a 2 0 / o 3 0 / t 4 0 / 3 4 0 / 2 3 0 / 1 2 1 0 / 1 4 -1 0")),
        ("nested or->or->t", 1, ls("o 1 0 / o 2 0 / o 3 0 / t 4 0 / 3 4 0 / 2 3 0 / 1 2 0")),
        ("nested or->or->t with a labelled sibling", 2, ls("o 1 0 / o 2 0 / o 3 0 / t 4 0 / 3 4 0 / 2 3 0 / 2 4 2 0 / 1 2 1 0 / 1 4 -1 0")),
        ("or with a false child and then a true child", 1, ls("o 1 0 / f 2 0 / t 3 0 / 1 3 0 / 1 2 1 0")),
        ("or->t shared by two and parents", 2, ls("o 1 0 / a 2 0 / a 3 0 / o 4 0 / t 5 0 / 4 5 0 / 2 4 0 / 3 4 0 / 1 2 1 0 / 1 3 -1 2 0")),
        ("and with a false child above an or->t", 1, ls("o 1 0 / a 2 0 / o 3 0 / t 4 0 / f 5 0 / 3 4 0 / 2 3 0 / 2 5 0 / 1 2 1 0 / 1 4 -1 0")),
        ("literal 0 on an edge", 1, ls("o 1 0 / t 2 0 / 1 2 0 0")),
        ("repeated literal on an edge", 3, ls("o 1 0 / t 2 0 / 1 2 3 3 0 / 1 2 -3 1 0")),
        ("feature id 100000 with 5 features: the occurrence table grows (F11), 99999 free features", 5, ls("o 1 0 / t 2 0 / 1 2 100000 0")),
        ("total_features 100000 (F11: the table has n+1 entries)", 100000, ls("o 1 0 / t 2 0 / 1 2 1 0 / 1 2 -1 0")),
        ("trailing blank after the final 0", 1, ls("o 1 0 / t 2 0 / 1 2 1 0 ")),
        ("C18 example: six missing features", 6, ls("o 1 0 / t 2 0 / 1 2 1 2 3 4 5 6 0 / 1 2 -1 0")),
        ("parallel unlabelled edges below an or", 2, ls("o 1 0 / o 2 0 / t 3 0 / 1 2 0 / 1 2 0 / 1 3 -1 -2 0 / 2 3 1 0 / 2 3 -1 2 0")),
        // dead and-chains: G=2 is a parent of nx=4 and of p=3, p is a parent of nx
        ("dead chain, grandparent edge older", 2, ls("o 1 0 / a 2 0 / a 3 0 / a 4 0 / f 5 0 / t 6 0 / 2 4 0 / 3 4 0 / 2 3 0 / 4 5 0 / 1 2 1 0 / 1 6 -1 2 0")),
        ("dead chain, grandparent edge newer", 2, ls("o 1 0 / a 2 0 / a 3 0 / a 4 0 / f 5 0 / t 6 0 / 3 4 0 / 2 4 0 / 2 3 0 / 4 5 0 / 1 2 1 0 / 1 6 -1 2 0")),
        ("dead chain, parallel edges into the dead and", 2, ls("o 1 0 / a 2 0 / a 3 0 / f 4 0 / t 5 0 / 2 3 0 / 2 3 0 / 3 4 0 / 1 2 1 0 / 1 5 -1 2 0")),
        ("dead chain below two or parents, then smoothing reuses the slots", 3, ls("o 1 0 / o 2 0 / a 3 0 / a 4 0 / f 5 0 / t 6 0 / 3 4 0 / 4 5 0 / 2 3 1 0 / 2 6 -1 3 0 / 1 2 2 0 / 1 3 -2 0 / 1 6 -2 -3 1 0")),
        ("true children of an and are dropped, childless and stays", 1, ls("o 1 0 / a 2 0 / t 3 0 / 2 3 0 / 2 3 0 / 1 2 1 0 / 1 3 -1 0")),
        ("false child listed after a true child of an and", 1, ls("o 1 0 / a 2 0 / t 3 0 / f 4 0 / 2 4 0 / 2 3 0 / 1 2 1 0 / 1 3 -1 0")),
        ("Props example: smoothing, free feature 5, false edge, shared node 2", 5, ls("o 1 0 / o 2 0 / t 3 0 / f 4 0 / 2 3 2 0 / 2 3 -2 3 0 / 1 2 1 0 / 1 2 -1 4 0 / 1 4 -1 -4 0")),
        ("feature mentioned only in a dead branch (C01_d4_loader_wf_refuted): neither free nor kept", 2, ls("o 1 0 / a 2 0 / f 3 0 / t 4 0 / 2 3 0 / 1 2 1 2 0 / 1 4 -1 0")),
        ("declared ids are ignored, only the position counts", 1, ls("o 7 0 / t 7 0 / 1 2 1 0 / 1 2 -1 0")),
        ("edge to a declared id that is not a position", 1, ls("o 1 0 / t 3 0 / 1 3 1 0")),
        ("dead and below an or and below a live and", 2, ls("o 1 0 / a 2 0 / a 3 0 / f 4 0 / t 5 0 / 3 4 0 / 2 3 0 / 2 5 0 / 1 2 1 0 / 1 3 -1 2 0 / 1 5 -1 -2 0")),
        ("or that loses every child stays childless below an and", 2, ls("o 1 0 / a 2 0 / o 3 0 / f 4 0 / t 5 0 / 3 4 2 0 / 3 4 -2 0 / 2 3 0 / 1 2 1 0 / 1 5 -1 2 0 / 1 5 -1 -2 0")),
        ("shared or with different missing sets at two parents", 4, ls("o 1 0 / o 2 0 / o 3 0 / t 4 0 / 3 4 3 0 / 3 4 -3 0 / 2 3 2 0 / 2 4 -2 3 4 0 / 1 2 1 0 / 1 3 -1 2 4 0")),
        // witnesses of Props/C01.v for the conditions of d4_conform (C01_d4_conform_*_refuted)
        ("conform witness: or node without a complementary pair (det_cert fails)", 2, ls("o 1 0 / t 2 0 / 1 2 1 0 / 1 2 2 0")),
        ("conform witness: and node over the same feature twice (decomposable fails)", 1, ls("a 1 0 / t 2 0 / 1 2 1 0 / 1 2 -1 0")),
        ("conform witness: edge literal mentioned again below the target (decomposable fails)", 1, ls("o 1 0 / o 2 0 / t 3 0 / 2 3 1 0 / 2 3 -1 0 / 1 2 1 0 / 1 3 -1 0")),
        ("conform witness: an edge that repeats a feature (decomposable fails)", 1, ls("o 1 0 / t 2 0 / 1 2 1 1 0 / 1 2 -1 0")),
        ("conform witness: edge out of a t node, its feature is neither free nor kept (complete fails)", 2, ls("o 1 0 / t 2 0 / t 3 0 / 1 2 1 0 / 1 2 -1 0 / 2 3 2 0")),
        ("conform, not necessary: two unlabelled edges into the same f node", 1, ls("o 1 0 / f 2 0 / t 3 0 / 1 2 0 / 1 2 0 / 1 3 1 0")),
        ("conform, not necessary: deterministic or that is not a decision node", 1, ls("o 1 0 / a 2 0 / a 3 0 / t 4 0 / 1 2 0 / 1 3 0 / 2 4 1 0 / 3 4 -1 0")),
        ("conform example: shared node, two missing sets, dead branch, free feature 5", 5, ls("o 1 0 / o 2 0 / o 3 0 / t 4 0 / f 5 0 / 3 4 3 0 / 3 4 -3 0 / 2 3 2 0 / 2 4 -2 3 4 0 / 1 2 1 0 / 1 3 -1 2 4 0 / 1 5 -1 -2 0")),
    ]
}

/// structurally random acyclic d4 file: edges only from lower to higher ids, none out of t/f
fn random_dag(rng: &mut Rng) -> (u32, Vec<String>) {
    let k = 3 + rng.below(9) as usize;
    let nf = 1 + rng.below(5) as i32;
    let mut kinds: Vec<char> = Vec::new();
    for i in 0..k {
        let c = if i + 2 >= k {
            *rng.pick(&['t', 't', 'f', 'o'])
        } else {
            *rng.pick(&['o', 'o', 'a', 'a', 't', 'f'])
        };
        kinds.push(if i == 0 { *rng.pick(&['o', 'o', 'a']) } else { c });
    }
    let mut edges: Vec<String> = Vec::new();
    for i in 0..k {
        if kinds[i] == 't' || kinds[i] == 'f' || i + 1 >= k {
            continue;
        }
        let deg = 1 + rng.below(3) as usize;
        for _ in 0..deg {
            let j = i + 1 + rng.below((k - i - 1) as u64) as usize;
            let mut s = format!("{} {}", i + 1, j + 1);
            let nl = if kinds[i] == 'o' { rng.below(3) } else if rng.chance(1, 6) { 1 } else { 0 };
            for _ in 0..nl {
                let v = 1 + rng.below(nf as u64) as i32;
                s.push_str(&format!(" {}", if rng.coin() { v } else { -v }));
            }
            s.push_str(" 0");
            edges.push(s);
        }
    }
    rng.shuffle(&mut edges);
    let mut lines: Vec<String> = (0..k).map(|i| format!("{} {} 0", kinds[i], i + 1)).collect();
    lines.extend(edges);
    ((nf as u32) + rng.below(3) as u32, lines)
}

fn show_token(t: &D4Token) -> String {
    match t {
        D4Token::And => "A".to_string(),
        D4Token::Or => "O".to_string(),
        D4Token::True => "T".to_string(),
        D4Token::False => "F".to_string(),
        D4Token::Edge { from, to, features } => {
            let mut s = format!("E {} {}", from, to);
            for f in features {
                s.push_str(&format!(" {}", f));
            }
            s
        }
    }
}

fn lexer_sample(ctx: &Ctx, rng: &mut Rng, out: &mut dyn Write) {
    let mut lines: Vec<String> = vec![
        "o 1 0", "a 2 0", "t 3 0", "f 4 0", "o 1", "o1 0", "o  1 0", "O 1 0", " o 1 0", "o 12x", "a 0 0 0",
        "1 2 0", "1 2 3 0", "1 2 -3 4 0", "1 2 0 ", "1 2 0 0", "1 2 00", "1 2 3 05", "1 2 3", "1 2", "1 0", "0",
        "1 2 3 0x", "1  2   3 0", "1\t2\t-3 0", "1 2 - 3 0", "1 2 -3- 0", "1 2 --3 0", "-1 2 0", "1 -2 0", "+1 2 0",
        "1 2 2147483647 0", "1 2 2147483648 0", "1 2 -2147483648 0", "1 2 -2147483649 0", "1 2 -0 0", "1 2 007 0",
        "99999999999 2 0", "1 2 3 0 4 0", "1 2 3 0 4", "", " ", "x", "t", "f 1", "1 2 3 -0", "1 2 3 -", "12", "1 2 a 0",
        "1 2 3 THREE 0", "2 3 -5 THREE 0", "a 1 0 trailing", "1 2 3 0\t", "1 2 3\t0", "\t1 2 0",
    ]
    .into_iter()
    .map(|s| s.to_string())
    .collect();
    let seeds: Vec<String> = lines.clone();
    let alphabet: Vec<char> = "0123456789-- \t oatf0 ".chars().collect();
    let extra = if ctx.tier == "thorough" { 3000 } else { 500 };
    for _ in 0..extra {
        let mut cs: Vec<char> = if rng.chance(1, 5) {
            (0..rng.below(9)).map(|_| *rng.pick(&alphabet)).collect()
        } else {
            rng.pick(&seeds).chars().collect()
        };
        for _ in 0..(1 + rng.below(3)) {
            match rng.below(3) {
                0 if !cs.is_empty() => {
                    let i = rng.below(cs.len() as u64) as usize;
                    cs.remove(i);
                }
                1 => {
                    let i = rng.below(cs.len() as u64 + 1) as usize;
                    cs.insert(i, *rng.pick(&alphabet));
                }
                _ if !cs.is_empty() => {
                    let i = rng.below(cs.len() as u64) as usize;
                    cs[i] = *rng.pick(&alphabet);
                }
                _ => {}
            }
        }
        lines.push(cs.into_iter().collect());
    }
    for (k, chunk) in lines.chunks(100).enumerate() {
        let mut s = String::new();
        writeln!(s, "case ld4-lex-{} LD4LEX", k).unwrap();
        let chunk: Vec<String> = chunk.to_vec();
        s.push_str(&file_block("lines", &chunk));
        for (i, l) in chunk.iter().enumerate() {
            let l2 = l.clone();
            let r = guarded(move || lex_line_d4(&l2).map(|(_, t)| show_token(&t)).map_err(|_| ()));
            match r {
                Ok(Ok(t)) => writeln!(s, "lex {} ok {}", i, t).unwrap(),
                Ok(Err(())) => writeln!(s, "lex {} err", i).unwrap(),
                Err(_) => writeln!(s, "lex {} panic", i).unwrap(),
            }
        }
        writeln!(s, "end").unwrap();
        out.write_all(s.as_bytes()).unwrap();
    }
}

fn corpus(ctx: &Ctx, out: &mut dyn Write) {
    let files: &[(&str, u32)] = &[
        ("/repo/ddnnife/tests/data/small_ex_d4.nnf", 4),
        ("/repo/ddnnife/tests/data/sandwich.nnf", 19),
        ("/repo/ddnnife/tests/data/VP9_d4.nnf", 42),
        ("/repo/example_input/axTLS_d4_684.nnf", 684),
    ];
    for (k, (p, n)) in files.iter().enumerate() {
        if let Ok(text) = std::fs::read_to_string(p) {
            let lines: Vec<String> = text.lines().map(|l| l.to_string()).collect();
            emit(ctx, out, &format!("ld4-corpus-{}", k), &format!("corpus {}", p), *n, &lines);
        }
    }
}

pub fn run(_kind: &str, ctx: &Ctx, out: &mut dyn Write) {
    let mut rng = Rng::new(ctx.seed ^ 0x1d4);
    for (k, (info, n, lines)) in hand_cases().into_iter().enumerate() {
        emit(ctx, out, &format!("ld4-hand-{}", k), info, n, &lines);
    }
    corpus(ctx, out);
    lexer_sample(ctx, &mut rng, out);
    let ndag = if ctx.tier == "thorough" { 20000 } else { 3000 };
    for k in 0..ndag {
        let (n, lines) = random_dag(&mut rng);
        emit(ctx, out, &format!("ld4-dag-{}", k), "structurally random dag", n, &lines);
    }
    // the C01 input space, d4 files only (same generator and classes as kind c01)
    let srcs = sources(ctx, &mut rng);
    let mut k = 0;
    for src in srcs.iter() {
        let inp = match make_input(format!("ld4-{}", k), src, &mut rng) {
            Some(i) => i,
            None => continue,
        };
        if inp.format != "d4" {
            continue;
        }
        k += 1;
        // truth table of the source formula: judges the FILE SEMANTICS eval_d4 of the spec side
        let mut extra = String::new();
        write_models(&mut extra, &inp);
        emit_with(ctx, out, &inp.id, &inp.desc, inp.n, &inp.lines, &extra);
    }
}
