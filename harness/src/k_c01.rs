//! C01: total count.  Generates d4/c2d files from source formulas, loads them through the real
//! parser and records what the implementation computed.
use crate::common::*;
use crate::gen::*;
use crate::rng::Rng;
use std::io::Write;

pub struct Source {
    pub cnf: Cnf,
    pub n: u32,     // total feature count the model is loaded with
    pub desc: String,
}

/// The shared "C01 input space": a deterministic stream of (source formula, file, format).
#[derive(Clone)]
pub struct Input {
    pub id: String,
    pub n: u32,
    pub format: &'static str,
    pub lines: Vec<String>,
    pub desc: String,
    pub models: Option<Vec<u32>>, // truth table of the source (n <= 16)
}

/// d4's root idiom (`o 1 0` with one unlabelled edge) as a class of the input space; needs the
/// loader repair F12 (repo_patches/F12-or-with-true-child.patch) in /repo: without it a
/// tautological branch leaves a true node below an or node (model: load_d4_f12_v0)
pub const D4_ROOT_IDIOM: bool = true;

pub fn make_input(id: String, src: &Source, rng: &mut Rng) -> Option<Input> {
    make_input_class(id, src, rng, false)
}

/// `c2d_false`: emit a c2d file that keeps its false nodes (`O 0 0`), i.e. dead branches stay in
/// the file; the c2d loader performs no false-elimination (finding K7 for the syntactic core,
/// repaired by F22: calculate_core ignores dead branches).
pub fn make_input_class(id: String, src: &Source, rng: &mut Rng, c2d_false: bool) -> Option<Input> {
    let mut opts = Opts::random(rng, src.n);
    if c2d_false {
        opts.keep_false = true;
    }
    let dag = compile(&src.cnf, &opts)?;
    let models = if src.n <= 16 { Some(models(&src.cnf, src.n)) } else { None };
    if let Some(m) = &models {
        if m.is_empty() {
            return None;
        }
    }
    // a separate class: d4 files with a dead two-level and-chain above the false node
    if !c2d_false && src.n >= 2 && rng.chance(1, 12) {
        let x = (1 + rng.below(src.n as u64)) as i32;
        let x = if rng.coin() { x } else { -x };
        if let Some((lines, eff)) = emit_d4_dead_chain(&src.cnf, x, &opts) {
            let ms = if src.n <= 16 { Some(crate::gen::models(&eff, src.n)) } else { None };
            if ms.as_ref().map(|m| !m.is_empty()).unwrap_or(true) {
                return Some(Input {
                    id,
                    n: src.n,
                    format: "d4",
                    lines,
                    desc: format!("{} AND {} | d4 dead and-chain above f | {}", src.desc, -x, opts.describe()),
                    models: ms,
                });
            }
        }
    }
    // ... and the same one level down (the dead part's features may be free in its live sibling)
    if !c2d_false && src.n >= 2 && src.n < 16 && rng.chance(1, 12) {
        let x = (1 + rng.below(src.n as u64)) as i32;
        let x = if rng.coin() { x } else { -x };
        let y = src.n + 1;
        if let Some((lines, eff)) = crate::gen::emit_d4_dead_chain_nested(&src.cnf, x, y, &opts) {
            let ms = crate::gen::models(&eff, y);
            if !ms.is_empty() {
                return Some(Input {
                    id,
                    n: y,
                    format: "d4",
                    lines,
                    desc: format!("{} AND (-{} or {}) | d4 nested dead and-chain above f | {}", src.desc, y, -x, opts.describe()),
                    models: Some(ms),
                });
            }
        }
    }
    let c2d = c2d_false || rng.chance(1, 3);
    // a separate class: c2d files with n-ary or nodes (multiway decisions), small n only
    let multiway = !c2d_false && src.n >= 2 && src.n <= 6 && models.is_some() && rng.chance(1, 4);
    let (format, lines, extra) = if multiway && rng.coin() {
        ("d4", emit_d4_multiway(models.as_ref().unwrap(), src.n, rng), "d4 multiway (n-ary or, tautological branches go to t)".to_string())
    } else if multiway {
        ("c2d", emit_c2d_multiway(models.as_ref().unwrap(), src.n, rng), "c2d multiway (n-ary or)".to_string())
    } else if c2d {
        let co = C2dOpts { keep_true: rng.chance(1, 4), keep_false: c2d_false };
        let e = format!("c2d keep_true={} keep_false={}", co.keep_true as u8, co.keep_false as u8);
        ("c2d", emit_c2d(&dag, src.n, &co), e)
    } else {
        if D4_ROOT_IDIOM && rng.chance(1, 4) {
            let dag2 = crate::gen::with_d4_root(&dag);
            ("d4", emit_d4(&dag2, &opts, rng), "d4 root idiom (or node 1 with one unlabelled edge)".to_string())
        } else if rng.chance(1, 8) {
            let dag2 = crate::gen::add_trivial_ands(&dag, rng);
            ("d4", emit_d4(&dag2, &opts, rng), "d4 trivial components (and-nodes over t only / with an extra t child, or-nodes with an extra unlabelled edge to f)".to_string())
        } else {
            ("d4", emit_d4(&dag, &opts, rng), String::new())
        }
    };
    // a separate class: a single-child and node (optionally above a single-child or node) on top of the root
    // (c2d only: d4's own root is always `o 1 0`; an `a` root above it is outside d4's conventions)
    let (lines, extra) = if !c2d_false && format == "c2d" && rng.chance(1, 5) {
        let two = rng.coin();
        (wrap_root(format, &lines, two), format!("{} root wrapped in {}", extra, if two { "and(or(.))" } else { "and(.)" }))
    } else {
        (lines, extra)
    };
    Some(Input {
        id,
        n: src.n,
        format,
        lines,
        desc: format!("{} | {} {}", src.desc, opts.describe(), extra),
        models,
    })
}

/// the same function with a single-child And root (two = and(or(root))) on top
pub fn wrap_root(format: &str, lines: &[String], two: bool) -> Vec<String> {
    let k: i64 = if two { 2 } else { 1 };
    if format == "c2d" {
        let h: Vec<i64> = lines[0].split_whitespace().skip(1).map(|t| t.parse().unwrap()).collect();
        let (v, e, n) = (h[0], h[1], h[2]);
        let mut out = vec![format!("nnf {} {} {}", v + k, e + k, n)];
        out.extend(lines[1..].iter().cloned());
        if two {
            out.push(format!("O 0 1 {}", v - 1));
            out.push(format!("A 1 {}", v));
        } else {
            out.push(format!("A 1 {}", v - 1));
        }
        out
    } else {
        // d4: the root is the first declared node; ids are positions, so every id moves up by k
        let mut out = vec!["a 1 0".to_string()];
        if two {
            out.push("o 2 0".to_string());
        }
        let mut first_decl_done = false;
        for l in lines {
            let t: Vec<&str> = l.split_whitespace().collect();
            if t.is_empty() {
                continue;
            }
            if t[0].parse::<i64>().is_ok() {
                let from: i64 = t[0].parse().unwrap();
                let to: i64 = t[1].parse().unwrap();
                out.push(format!("{} {} {}", from + k, to + k, t[2..].join(" ")));
            } else {
                let id: i64 = t[1].parse().unwrap();
                out.push(format!("{} {} 0", t[0], id + k));
                if !first_decl_done {
                    first_decl_done = true;
                    if two {
                        out.push("1 2 0".to_string());
                        out.push("2 3 0".to_string());
                    } else {
                        out.push("1 2 0".to_string());
                    }
                }
            }
        }
        out
    }
}

/// Degenerate but well-formed files that the compiling generator does not produce: the whole
/// model is one literal node (c2d), one true node (d4).
pub fn special_inputs(prefix: &str) -> Vec<Input> {
    let mk = |id: &str, n: u32, format: &'static str, lines: &[&str], models: Vec<u32>, desc: &str| Input {
        id: format!("{}-special-{}", prefix, id),
        n,
        format,
        lines: lines.iter().map(|l| l.to_string()).collect(),
        desc: format!("special: {}", desc),
        models: Some(models),
    };
    vec![
        mk("lit-pos", 1, "c2d", &["nnf 1 0 1", "L 1"], vec![1], "c2d, the model is the single literal node x1"),
        mk("lit-neg", 1, "c2d", &["nnf 1 0 1", "L -1"], vec![0], "c2d, the model is the single literal node -x1"),
        mk("and-of-lits", 2, "c2d", &["nnf 3 2 2", "L -1", "L 2", "A 2 0 1"], vec![2], "c2d, -x1 and x2"),
        mk("d4-true", 2, "d4", &["t 1 0"], vec![0, 1, 2, 3], "d4, a lone true node with 2 free features"),
        mk("d4-unit", 2, "d4", &["o 1 0", "t 2 0", "1 2 -1 0"], vec![0, 2], "d4, -x1 with a free feature"),
        // dead or nodes: every edge of the or node goes into f; the node stays (count 0) below its parent
        mk("d4-dead-or", 2, "d4", &["o 1 0", "t 2 0", "o 3 0", "f 4 0", "1 2 1 2 0", "1 3 -1 0", "3 4 2 0"],
           vec![3], "d4, x1 & x2; the -x1 branch is an or node whose only edge goes into f"),
        mk("d4-dead-or-2", 3, "d4", &["o 1 0", "t 2 0", "o 3 0", "f 4 0", "1 2 1 2 0", "1 3 -1 0", "3 4 2 0", "3 4 -2 0"],
           vec![3, 7], "d4, x1 & x2 (x3 free); the -x1 branch is an or node with both edges into f"),
        mk("d4-dead-or-below-and", 3, "d4",
           &["o 1 0", "a 2 0", "o 3 0", "f 4 0", "t 5 0", "o 6 0", "1 2 1 0", "1 5 -1 2 3 0", "2 3 0", "2 6 0", "3 4 2 0", "3 4 -2 0", "6 5 3 0", "6 5 -3 0"],
           vec![6], "d4, -x1 & x2 & x3; the x1 branch is an and node over a dead or node and a live or node"),
        // a dead and node shared by two decision nodes: (w & -x) | (-w & -y)
        mk("d4-shared-dead-and", 3, "d4",
           &["o 1 0", "o 2 0", "o 3 0", "a 4 0", "f 5 0", "t 6 0", "1 2 1 0", "1 3 -1 0", "2 4 2 0", "2 6 -2 0", "3 4 3 0", "3 6 -3 0", "4 5 0", "4 6 0"],
           vec![1, 5, 0, 2], "d4, (x1 & -x2) | (-x1 & -x3); both decisions share one dead and node"),
        mk("d4-shared-dead-and-deep", 4, "d4",
           &["o 1 0", "o 2 0", "o 3 0", "a 4 0", "a 5 0", "f 6 0", "t 7 0", "1 2 1 0", "1 3 -1 0", "2 4 2 0", "2 7 -2 0", "3 4 3 0", "3 7 -3 0", "4 5 0", "4 7 0", "5 6 0"],
           vec![1, 5, 0, 2, 9, 13, 8, 10], "d4, the same with one more and level above f and a free feature"),
    ]
}

/// stream of source formulas: exhaustive small functions first, then random CNFs
pub fn sources(ctx: &Ctx, rng: &mut Rng) -> Vec<Source> {
    let mut v = Vec::new();
    let quick = ctx.tier != "thorough";
    // exhaustive: every satisfiable function over 1..3 features (+ up to 2 unmentioned extras)
    let maxn = if quick { 3 } else { 4 };
    for n in 1..=maxn {
        let rows = 1u32 << n;
        let total: u64 = if rows == 64 { u64::MAX } else { (1u64 << rows) - 1 };
        let step = if n == 4 && quick { 97 } else { 1 };
        let mut tt = 1u64;
        while tt <= total {
            let extra = rng.below(3) as u32;
            v.push(Source {
                cnf: cnf_of_table(tt, n),
                n: n + extra,
                desc: format!("table n={} tt={} extra={}", n, tt, extra),
            });
            tt += step;
        }
    }
    // random CNFs in three classes: sparse (many free / implied features), constrained 2/3-CNF
    // near the satisfiability threshold, and mixed widths with unit clauses
    let nrand = ctx.count;
    for k in 0..nrand {
        let n = 2 + rng.below(if quick { 9 } else { 15 }) as u32;
        let extra = rng.below(3) as u32;
        let class = rng.below(3);
        let (cnf, cdesc) = match class {
            0 => {
                let m = rng.below(n as u64 + 1) as usize;
                (random_cnf(rng, n, m, 3), format!("sparse m={}", m))
            }
            1 => {
                let m = (n as usize) + rng.below(2 * n as u64 + 1) as usize;
                let mut c = random_cnf(rng, n, m, 3);
                for cl in c.iter_mut() {
                    // widen unit clauses so that the formula stays interesting
                    if cl.len() == 1 {
                        let v = 1 + rng.below(n as u64) as i32;
                        if v != cl[0].abs() {
                            cl.push(if rng.coin() { v } else { -v });
                        }
                    }
                }
                (c, format!("constrained m={}", m))
            }
            _ => {
                let m = rng.below(2 * n as u64 + 1) as usize;
                let maxw = 1 + rng.below(4) as usize;
                (random_cnf(rng, n, m, maxw), format!("mixed m={} w<={}", m, maxw))
            }
        };
        v.push(Source {
            cnf,
            n: n + extra,
            desc: format!("random#{} n={} {} extra={}", k, n, cdesc, extra),
        });
    }
    v
}

pub fn write_models(out: &mut String, inp: &Input) {
    use std::fmt::Write as _;
    if let Some(m) = &inp.models {
        writeln!(out, "src_count {}", m.len()).unwrap();
        if inp.n <= 10 {
            writeln!(out, "src_models {}", join(m)).unwrap();
        }
    }
}

pub const KINDS: &[&str] = &["c01"];

/// feature ids far above 65536 (a small formula renamed onto wide ids, many free features):
/// the count is (models of the small formula) * 2^(free features); no truth table at that size
fn wide_id_cases(ctx: &Ctx, rng: &mut Rng, out: &mut dyn Write) {
    use num::BigUint;
    use std::fmt::Write as _;
    let cases = if ctx.tier == "thorough" { 12 } else { 3 };
    for k in 0..cases {
        let nv = 2 + rng.below(3) as u32; // variables of the small formula
        let mut small = Vec::new();
        let mut ms = Vec::new();
        for _ in 0..50 {
            let m = 1 + rng.below(nv as u64) as usize;
            small = random_cnf(rng, nv, m, 3);
            ms = models(&small, nv);
            // every variable must occur so that the wide ids are really mentioned
            let all = (1..=nv as i32).all(|v| small.iter().any(|c| c.iter().any(|l| l.abs() == v)));
            if !ms.is_empty() && all {
                break;
            }
            ms.clear();
        }
        if ms.is_empty() {
            continue;
        }
        // ids: some small, some wide, with collisions modulo 65536 between a small and a wide id
        let base = 1 + rng.below(20) as u32;
        let ids: Vec<u32> = (0..nv)
            .map(|i| if i % 2 == 0 { base + i } else { 65536 + base + (i - 1) + if rng.coin() { 0 } else { 4464 } })
            .collect();
        let total = ids.iter().copied().max().unwrap() + 1 + rng.below(5) as u32;
        let cnf = rename_cnf(&small, &|v| ids[(v - 1) as usize]);
        let mut order: Vec<u32> = ids.clone();
        rng.shuffle(&mut order);
        let opts = Opts { decomp: rng.coin(), share: true, keep_false: false, and_false: false, neg_first: rng.coin(), interleave: true, order };
        let dag = match compile(&cnf, &opts) {
            Some(d) => d,
            None => continue,
        };
        let lines = emit_d4(&dag, &opts, rng);
        let count = BigUint::from(ms.len()) << ((total - nv) as usize);
        let mut s = String::new();
        writeln!(s, "case c01-wide-{} C01", k).unwrap();
        writeln!(s, "info wide feature ids {:?} total={} | {}", ids, total, opts.describe()).unwrap();
        writeln!(s, "n {}", total).unwrap();
        writeln!(s, "src_count {}", count).unwrap();
        s.push_str(&file_block("d4", &lines));
        match load(&lines, Some(total)) {
            Err(e) => writeln!(s, "impl panic {}", e).unwrap(),
            Ok(d) => {
                writeln!(s, "bigcircuit {}", d.nodes.len()).unwrap();
                writeln!(s, "impl nvars {}", d.number_of_variables).unwrap();
                writeln!(s, "impl rc {}", d.rc()).unwrap();
            }
        }
        writeln!(s, "end").unwrap();
        out.write_all(s.as_bytes()).unwrap();
    }
}

/// total feature counts around the loader's internal table size (100 000): a small formula on
/// small ids, everything above is free; count = models * 2^(free features)
fn table_boundary_cases(rng: &mut Rng, out: &mut dyn Write) {
    use num::BigUint;
    use std::fmt::Write as _;
    for (k, &total) in [99_999u32, 100_000, 100_001, 131_072].iter().enumerate() {
        let nv = 3u32;
        let small = vec![vec![1, 2], vec![-1, 3]];
        let ms = models(&small, nv);
        // the last feature is unmentioned, or (second variant) the formula lives on the top ids
        for top in [false, true] {
            let ids: Vec<u32> = if top { vec![total - 2, total - 1, total] } else { vec![1, 2, 3] };
            let cnf = rename_cnf(&small, &|v| ids[(v - 1) as usize]);
            let mut order = ids.clone();
            rng.shuffle(&mut order);
            let opts = Opts { decomp: false, share: true, keep_false: false, and_false: false, neg_first: rng.coin(), interleave: true, order };
            let dag = match compile(&cnf, &opts) {
                Some(d) => d,
                None => continue,
            };
            let lines = emit_d4(&dag, &opts, rng);
            let count = BigUint::from(ms.len()) << ((total - nv) as usize);
            let mut s = String::new();
            writeln!(s, "case c01-tablesize-{}-{} C01", k, top as u8).unwrap();
            writeln!(s, "info total features {} around the occurrence-table size, formula on ids {:?}", total, ids).unwrap();
            writeln!(s, "n {}", total).unwrap();
            writeln!(s, "src_count {}", count).unwrap();
            s.push_str(&file_block("d4", &lines));
            match load(&lines, Some(total)) {
                Err(e) => writeln!(s, "impl panic {}", e).unwrap(),
                Ok(d) => {
                    writeln!(s, "bigcircuit {}", d.nodes.len()).unwrap();
                    writeln!(s, "impl nvars {}", d.number_of_variables).unwrap();
                    writeln!(s, "impl rc {}", d.rc()).unwrap();
                }
            }
            writeln!(s, "end").unwrap();
            out.write_all(s.as_bytes()).unwrap();
        }
    }
}

pub fn run(_kind: &str, ctx: &Ctx, out: &mut dyn Write) {
    let mut rng = Rng::new(ctx.seed);
    wide_id_cases(ctx, &mut rng, out);
    table_boundary_cases(&mut rng, out);
    let srcs = sources(ctx, &mut rng);
    let specials = special_inputs("c01");
    let mut k = 0;
    for idx in 0..(specials.len() + srcs.len()) {
        let inp = if idx < specials.len() {
            specials[idx].clone()
        } else {
            match make_input(format!("c01-{}", k), &srcs[idx - specials.len()], &mut rng) {
                Some(i) => i,
                None => continue,
            }
        };
        k += 1;
        let mut s = String::new();
        use std::fmt::Write as _;
        writeln!(s, "case {} C01", inp.id).unwrap();
        writeln!(s, "info {}", inp.desc).unwrap();
        writeln!(s, "n {}", inp.n).unwrap();
        write_models(&mut s, &inp);
        s.push_str(&file_block(inp.format, &inp.lines));
        match load(&inp.lines, Some(inp.n)) {
            Err(e) => writeln!(s, "impl panic {}", e).unwrap(),
            Ok(d) => {
                s.push_str(&dump_circuit(&d));
                writeln!(s, "impl nvars {}", d.number_of_variables).unwrap();
                let counts: Vec<String> = d.nodes.iter().map(|nd| nd.count.to_string()).collect();
                writeln!(s, "impl counts {}", counts.join(" ")).unwrap();
                writeln!(s, "impl rc {}", d.rc()).unwrap();
            }
        }
        writeln!(s, "end").unwrap();
        out.write_all(s.as_bytes()).unwrap();
    }
}
