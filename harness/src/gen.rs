//! Reference generator: random / exhaustive CNFs, a small d4-style compiler (decision + unit
//! propagation + component split + caching) producing d-DNNF files in d4 and in (smooth) c2d
//! format, and the truth table of the source formula.  Everything here is input generation and
//! oracle data; none of it is part of the Coq model.
use crate::rng::Rng;
use std::collections::{BTreeMap, BTreeSet, HashMap};

pub type Clause = Vec<i32>;
pub type Cnf = Vec<Clause>;

#[derive(Clone, Debug)]
pub struct Opts {
    pub decomp: bool,
    pub share: bool,
    pub keep_false: bool,
    /// with keep_false: an unsatisfiable component is written as a two-level and-chain above the
    /// false node (instead of a decision edge into f): exercises the loader's chain deletion
    pub and_false: bool,
    pub neg_first: bool,
    pub interleave: bool,
    pub order: Vec<u32>,
}

impl Opts {
    pub fn describe(&self) -> String {
        format!(
            "decomp={} share={} keep_false={} and_false={} neg_first={} interleave={} order={:?}",
            self.decomp as u8,
            self.share as u8,
            self.keep_false as u8,
            self.and_false as u8,
            self.neg_first as u8,
            self.interleave as u8,
            self.order
        )
    }
    pub fn random(rng: &mut Rng, n: u32) -> Opts {
        let mut order: Vec<u32> = (1..=n).collect();
        rng.shuffle(&mut order);
        Opts {
            decomp: rng.coin(),
            share: rng.coin(),
            keep_false: rng.coin(),
            and_false: rng.chance(1, 3),
            neg_first: rng.coin(),
            interleave: rng.coin(),
            order,
        }
    }
}

#[derive(Clone, Debug)]
pub enum DNode {
    Or(Vec<(Vec<i32>, usize)>),
    And(Vec<usize>),
    True,
    False,
}

#[derive(Clone, Debug)]
pub struct Dag {
    pub nodes: Vec<DNode>,
    pub root: usize,
}

fn normalize(cnf: &Cnf) -> Option<Cnf> {
    // sort literals, drop duplicate literals, drop tautological clauses, sort+dedup clauses
    let mut out: BTreeSet<Clause> = BTreeSet::new();
    for c in cnf {
        let mut c = c.clone();
        c.sort_by_key(|l| (l.abs(), *l));
        c.dedup();
        if c.windows(2).any(|w| w[0] == -w[1]) {
            continue;
        }
        out.insert(c);
    }
    Some(out.into_iter().collect())
}

/// assign `lit` and unit-propagate; None on conflict
fn propagate(cnf: &Cnf, lits: &[i32]) -> Option<(Cnf, Vec<i32>)> {
    let mut cur: Cnf = cnf.clone();
    let mut queue: Vec<i32> = lits.to_vec();
    let mut assigned: Vec<i32> = Vec::new();
    let mut implied: Vec<i32> = Vec::new();
    let mut first = lits.len();
    while let Some(l) = if queue.is_empty() { None } else { Some(queue.remove(0)) } {
        if assigned.contains(&l) {
            if first > 0 {
                first -= 1;
            }
            continue;
        }
        if assigned.contains(&-l) {
            return None;
        }
        assigned.push(l);
        if first > 0 {
            first -= 1;
        } else {
            implied.push(l);
        }
        let mut next: Cnf = Vec::new();
        for c in cur.iter() {
            if c.contains(&l) {
                continue;
            }
            let c2: Clause = c.iter().copied().filter(|&x| x != -l).collect();
            if c2.is_empty() {
                return None;
            }
            if c2.len() == 1 && !queue.contains(&c2[0]) && !assigned.contains(&c2[0]) {
                queue.push(c2[0]);
            }
            next.push(c2);
        }
        cur = next;
    }
    let cur = normalize(&cur).unwrap();
    Some((cur, implied))
}

fn components(cnf: &Cnf) -> Vec<Cnf> {
    // union-find over variables
    let mut parent: BTreeMap<i32, i32> = BTreeMap::new();
    fn find(p: &mut BTreeMap<i32, i32>, x: i32) -> i32 {
        let px = *p.get(&x).unwrap();
        if px == x {
            x
        } else {
            let r = find(p, px);
            p.insert(x, r);
            r
        }
    }
    for c in cnf {
        for l in c {
            parent.entry(l.abs()).or_insert(l.abs());
        }
    }
    for c in cnf {
        let a = find(&mut parent, c[0].abs());
        for l in &c[1..] {
            let b = find(&mut parent, l.abs());
            if a != b {
                parent.insert(b, a);
            }
        }
    }
    let mut groups: BTreeMap<i32, Cnf> = BTreeMap::new();
    for c in cnf {
        let r = find(&mut parent, c[0].abs());
        groups.entry(r).or_default().push(c.clone());
    }
    groups.into_values().collect()
}

struct Compiler<'a> {
    opts: &'a Opts,
    nodes: Vec<DNode>,
    memo: HashMap<Cnf, Option<usize>>,
    t: Option<usize>,
    f: Option<usize>,
    /// nodes that are equivalent to false (and-chains above the false node, ors without a live edge)
    dead: std::collections::HashSet<usize>,
}

impl<'a> Compiler<'a> {
    fn tnode(&mut self) -> usize {
        if let Some(t) = self.t {
            if self.opts.share {
                return t;
            }
        }
        self.nodes.push(DNode::True);
        self.t = Some(self.nodes.len() - 1);
        self.nodes.len() - 1
    }
    fn fnode(&mut self) -> usize {
        if let Some(f) = self.f {
            if self.opts.share {
                return f;
            }
        }
        self.nodes.push(DNode::False);
        self.f = Some(self.nodes.len() - 1);
        self.nodes.len() - 1
    }
    /// None = the formula is unsatisfiable (d4 never emits a node for an unsatisfiable residue:
    /// the caller turns it into an edge to the false node or omits the edge)
    fn compile(&mut self, cnf: &Cnf) -> Option<usize> {
        if cnf.is_empty() {
            return Some(self.tnode());
        }
        if self.opts.share {
            if let Some(&id) = self.memo.get(cnf) {
                return id;
            }
        }
        let id = self.compile_inner(cnf);
        if self.opts.share {
            self.memo.insert(cnf.clone(), id);
        }
        id
    }
    fn compile_inner(&mut self, cnf: &Cnf) -> Option<usize> {
        if self.opts.decomp {
            let comps = components(cnf);
            if comps.len() > 1 {
                let mut kids: Vec<usize> = Vec::new();
                let mut unsat = false;
                for c in comps.iter() {
                    match self.compile(c) {
                        Some(k) if !self.dead.contains(&k) => kids.push(k),
                        _ => unsat = true,
                    }
                }
                if unsat {
                    if self.opts.keep_false && self.opts.and_false {
                        // and( live components ..., and( false ) ): a dead and-chain
                        let f = self.fnode();
                        self.nodes.push(DNode::And(vec![f]));
                        let inner = self.nodes.len() - 1;
                        kids.push(inner);
                        self.nodes.push(DNode::And(kids));
                        let outer = self.nodes.len() - 1;
                        self.dead.insert(inner);
                        self.dead.insert(outer);
                        return Some(outer);
                    }
                    return None;
                }
                self.nodes.push(DNode::And(kids));
                return Some(self.nodes.len() - 1);
            }
        }
        // decision variable: first in the order that occurs
        let x = *self
            .opts
            .order
            .iter()
            .find(|&&v| cnf.iter().any(|c| c.iter().any(|l| l.unsigned_abs() == v)))
            .expect("variable order must cover the formula") as i32;
        let pols = if self.opts.neg_first { [-x, x] } else { [x, -x] };
        let mut edges = Vec::new();
        let mut live = 0;
        for lit in pols {
            let sub = match propagate(cnf, &[lit]) {
                None => None,
                Some((rest, implied)) => self.compile(&rest).map(|child| (implied, child)),
            };
            match sub {
                None => {
                    if self.opts.keep_false {
                        let f = self.fnode();
                        edges.push((vec![lit], f));
                    }
                }
                Some((implied, child)) => {
                    let mut lits = vec![lit];
                    lits.extend(implied);
                    edges.push((lits, child));
                    if !self.dead.contains(&child) {
                        live += 1;
                    }
                }
            }
        }
        if live == 0 {
            return None;
        }
        self.nodes.push(DNode::Or(edges));
        Some(self.nodes.len() - 1)
    }
}

/// Compile a CNF into a d4-style DAG.  Returns None when the formula is unsatisfiable.
pub fn compile(cnf: &Cnf, opts: &Opts) -> Option<Dag> {
    let cnf = normalize(cnf)?;
    if cnf.iter().any(|c| c.is_empty()) {
        return None;
    }
    let mut c = Compiler {
        opts,
        nodes: Vec::new(),
        memo: HashMap::new(),
        t: None,
        f: None,
        dead: Default::default(),
    };
    // top-level units
    let units: Vec<i32> = cnf.iter().filter(|c| c.len() == 1).map(|c| c[0]).collect();
    let root = if units.is_empty() {
        c.compile(&cnf)?
    } else {
        let (rest, implied) = propagate(&cnf, &units[..1])?;
        let child = c.compile(&rest)?;
        let mut lits = vec![units[0]];
        lits.extend(implied);
        c.nodes.push(DNode::Or(vec![(lits, child)]));
        c.nodes.len() - 1
    };
    if c.dead.contains(&root) {
        return None;
    }
    Some(Dag {
        nodes: c.nodes,
        root,
    })
}

/// The same function with trivial components: some decision edges into the true node go through
/// a fresh and-node whose only children are (unlabelled edges to) the true node, and some
/// and-nodes get an extra unlabelled edge to the true node.
pub fn add_trivial_ands(dag: &Dag, rng: &mut Rng) -> Dag {
    let mut nodes = dag.nodes.clone();
    let t = match nodes.iter().position(|n| matches!(n, DNode::True)) {
        Some(i) => i,
        None => {
            nodes.push(DNode::True);
            nodes.len() - 1
        }
    };
    let len = nodes.len();
    // ... and some or-nodes get an extra unlabelled edge to the (shared) false node
    let f = match nodes.iter().position(|n| matches!(n, DNode::False)) {
        Some(i) => i,
        None => {
            nodes.push(DNode::False);
            nodes.len() - 1
        }
    };
    for i in 0..len {
        match nodes[i].clone() {
            DNode::Or(mut edges) => {
                if rng.chance(1, 3) {
                    let at = rng.below(edges.len() as u64 + 1) as usize;
                    edges.insert(at, (vec![], f));
                }
                for e in edges.iter_mut() {
                    if e.1 == t && rng.coin() {
                        let kids = if rng.coin() { vec![t] } else { vec![t, t] };
                        nodes.push(DNode::And(kids));
                        e.1 = nodes.len() - 1;
                    }
                }
                nodes[i] = DNode::Or(edges);
            }
            DNode::And(mut kids) => {
                if rng.chance(1, 3) {
                    kids.push(t);
                    nodes[i] = DNode::And(kids);
                }
            }
            _ => {}
        }
    }
    Dag { nodes, root: dag.root }
}

/// d4's own root idiom: node 1 is an or node with a single unlabelled edge to the real root
/// (d4 labels that edge with the top-level unit literals; without any it is `1 2 0`).
pub fn with_d4_root(dag: &Dag) -> Dag {
    let mut nodes = dag.nodes.clone();
    nodes.push(DNode::Or(vec![(vec![], dag.root)]));
    let root = nodes.len() - 1;
    Dag { nodes, root }
}

/// d4 text; the root is node 1 and the first line.
pub fn emit_d4(dag: &Dag, opts: &Opts, rng: &mut Rng) -> Vec<String> {
    let mut lines = Vec::new();
    let mut ids: HashMap<usize, usize> = HashMap::new();
    fn decl(n: &DNode, id: usize) -> String {
        match n {
            DNode::Or(_) => format!("o {} 0", id),
            DNode::And(_) => format!("a {} 0", id),
            DNode::True => format!("t {} 0", id),
            DNode::False => format!("f {} 0", id),
        }
    }
    fn edge_line(from: usize, to: usize, lits: &[i32]) -> String {
        let mut s = format!("{} {}", from, to);
        for l in lits {
            s.push_str(&format!(" {}", l));
        }
        s.push_str(" 0");
        s
    }
    if opts.interleave {
        fn go(
            dag: &Dag,
            n: usize,
            ids: &mut HashMap<usize, usize>,
            lines: &mut Vec<String>,
        ) -> usize {
            if let Some(&id) = ids.get(&n) {
                return id;
            }
            let id = ids.len() + 1;
            ids.insert(n, id);
            lines.push(decl(&dag.nodes[n], id));
            match &dag.nodes[n] {
                DNode::Or(edges) => {
                    let cids: Vec<usize> =
                        edges.iter().map(|(_, c)| go(dag, *c, ids, lines)).collect();
                    for ((lits, _), cid) in edges.iter().zip(cids) {
                        lines.push(edge_line(id, cid, lits));
                    }
                }
                DNode::And(kids) => {
                    let cids: Vec<usize> = kids.iter().map(|c| go(dag, *c, ids, lines)).collect();
                    for cid in cids {
                        lines.push(edge_line(id, cid, &[]));
                    }
                }
                _ => {}
            }
            id
        }
        go(dag, dag.root, &mut ids, &mut lines);
    } else {
        // all declarations first (BFS from the root), then the edges in random order
        let mut order = vec![dag.root];
        let mut i = 0;
        ids.insert(dag.root, 1);
        while i < order.len() {
            let n = order[i];
            i += 1;
            let kids: Vec<usize> = match &dag.nodes[n] {
                DNode::Or(e) => e.iter().map(|(_, c)| *c).collect(),
                DNode::And(k) => k.clone(),
                _ => vec![],
            };
            for k in kids {
                if !ids.contains_key(&k) {
                    ids.insert(k, ids.len() + 1);
                    order.push(k);
                }
            }
        }
        for &n in &order {
            lines.push(decl(&dag.nodes[n], ids[&n]));
        }
        let mut edges = Vec::new();
        for &n in &order {
            match &dag.nodes[n] {
                DNode::Or(e) => {
                    for (lits, c) in e {
                        edges.push(edge_line(ids[&n], ids[c], lits));
                    }
                }
                DNode::And(k) => {
                    for c in k {
                        edges.push(edge_line(ids[&n], ids[c], &[]));
                    }
                }
                _ => {}
            }
        }
        rng.shuffle(&mut edges);
        lines.extend(edges);
    }
    lines
}

// ---------------------------------------------------------------------------------------------
// c2d emission (smooth NNF with unique literal leaves, all n variables mentioned)

#[derive(Clone, Debug, PartialEq, Eq, Hash)]
pub enum NNode {
    Lit(i32),
    And(Vec<usize>),
    Or(u32, Vec<usize>),
    True,
    False,
}

pub struct C2dOpts {
    pub keep_true: bool,  // leave `A 0` children below And nodes
    pub keep_false: bool, // leave `O 0 0` nodes (dead branches stay in the file)
}

pub struct Nnf {
    pub nodes: Vec<NNode>,
    pub vars: Vec<u128>,
    intern: HashMap<NNode, usize>,
}

impl Nnf {
    fn add(&mut self, n: NNode, share: bool) -> usize {
        if share {
            if let Some(&i) = self.intern.get(&n) {
                return i;
            }
        }
        let v = match &n {
            NNode::Lit(l) => 1u128 << l.unsigned_abs(),
            NNode::And(k) | NNode::Or(_, k) => k.iter().fold(0, |a, &c| a | self.vars[c]),
            _ => 0,
        };
        self.nodes.push(n.clone());
        self.vars.push(v);
        if share {
            self.intern.insert(n, self.nodes.len() - 1);
        }
        self.nodes.len() - 1
    }
    fn gadget(&mut self, v: u32) -> usize {
        let p = self.add(NNode::Lit(v as i32), true);
        let n = self.add(NNode::Lit(-(v as i32)), true);
        self.add(NNode::Or(v, vec![p, n]), true)
    }
    fn pad(&mut self, child: usize, missing: u128) -> usize {
        if missing == 0 {
            return child;
        }
        let mut kids = vec![child];
        for v in 1..128u32 {
            if missing & (1u128 << v) != 0 {
                kids.push(self.gadget(v));
            }
        }
        self.add(NNode::And(kids), false)
    }
}

/// Smooth c2d text for the DAG over features 1..n.
pub fn emit_c2d(dag: &Dag, n: u32, copts: &C2dOpts) -> Vec<String> {
    let mut nnf = Nnf {
        nodes: Vec::new(),
        vars: Vec::new(),
        intern: HashMap::new(),
    };
    let mut map: HashMap<usize, usize> = HashMap::new();
    fn is_false(nnf: &Nnf, i: usize) -> bool {
        match &nnf.nodes[i] {
            NNode::False => true,
            NNode::And(k) => k.iter().any(|&c| is_false(nnf, c)),
            NNode::Or(_, k) => k.iter().all(|&c| is_false(nnf, c)),
            _ => false,
        }
    }
    fn conv(
        dag: &Dag,
        i: usize,
        nnf: &mut Nnf,
        map: &mut HashMap<usize, usize>,
        copts: &C2dOpts,
    ) -> usize {
        if let Some(&r) = map.get(&i) {
            return r;
        }
        let r = match &dag.nodes[i] {
            DNode::True => nnf.add(NNode::True, true),
            DNode::False => nnf.add(NNode::False, true),
            DNode::And(kids) => {
                let ks: Vec<usize> = kids.iter().map(|&k| conv(dag, k, nnf, map, copts)).collect();
                nnf.add(NNode::And(ks), false)
            }
            DNode::Or(edges) => {
                let mut branches = Vec::new();
                let dec = edges.first().map(|(l, _)| l[0].unsigned_abs()).unwrap_or(0);
                for (lits, c) in edges {
                    let cc = conv(dag, *c, nnf, map, copts);
                    let mut ks: Vec<usize> =
                        lits.iter().map(|&l| nnf.add(NNode::Lit(l), true)).collect();
                    let child_true = nnf.nodes[cc] == NNode::True;
                    if !child_true || copts.keep_true {
                        ks.push(cc);
                    }
                    let b = if ks.len() == 1 {
                        ks[0]
                    } else {
                        nnf.add(NNode::And(ks), false)
                    };
                    if is_false(nnf, b) && !copts.keep_false {
                        continue;
                    }
                    branches.push(b);
                }
                // smoothing
                let all = branches.iter().fold(0u128, |a, &b| a | nnf.vars[b]);
                let padded: Vec<usize> = branches
                    .iter()
                    .map(|&b| {
                        let miss = all & !nnf.vars[b];
                        nnf.pad(b, miss)
                    })
                    .collect();
                if padded.len() == 1 {
                    padded[0]
                } else {
                    nnf.add(NNode::Or(dec, padded), false)
                }
            }
        };
        map.insert(i, r);
        r
    }
    let mut root = conv(dag, dag.root, &mut nnf, &mut map, copts);
    let all: u128 = (1..=n).fold(0u128, |a, v| a | (1u128 << v));
    let miss = all & !nnf.vars[root];
    root = nnf.pad(root, miss);
    // a root that is a bare true node: n = 0 only; not generated
    // emit reachable nodes in post-order
    let mut order: Vec<usize> = Vec::new();
    let mut seen: HashMap<usize, usize> = HashMap::new();
    fn post(nnf: &Nnf, i: usize, seen: &mut HashMap<usize, usize>, order: &mut Vec<usize>) {
        if seen.contains_key(&i) {
            return;
        }
        if let NNode::And(k) | NNode::Or(_, k) = &nnf.nodes[i] {
            for &c in k {
                post(nnf, c, seen, order);
            }
        }
        seen.insert(i, order.len());
        order.push(i);
    }
    post(&nnf, root, &mut seen, &mut order);
    let mut edges = 0;
    let mut body = Vec::new();
    for &i in &order {
        body.push(match &nnf.nodes[i] {
            NNode::Lit(l) => format!("L {}", l),
            NNode::True => "A 0".to_string(),
            NNode::False => "O 0 0".to_string(),
            NNode::And(k) => {
                edges += k.len();
                let mut s = format!("A {}", k.len());
                for c in k {
                    s.push_str(&format!(" {}", seen[c]));
                }
                s
            }
            NNode::Or(d, k) => {
                edges += k.len();
                let mut s = format!("O {} {}", d, k.len());
                for c in k {
                    s.push_str(&format!(" {}", seen[c]));
                }
                s
            }
        });
    }
    let mut lines = vec![format!("nnf {} {} {}", order.len(), edges, n)];
    lines.extend(body);
    lines
}

// ---------------------------------------------------------------------------------------------
// truth tables

pub fn sat_assignment(cnf: &Cnf, a: u32) -> bool {
    cnf.iter().all(|c| {
        c.iter().any(|&l| {
            let bit = (a >> (l.unsigned_abs() - 1)) & 1 == 1;
            if l > 0 {
                bit
            } else {
                !bit
            }
        })
    })
}

/// all models over features 1..n as bit masks (bit v-1 = value of feature v)
pub fn models(cnf: &Cnf, n: u32) -> Vec<u32> {
    (0..(1u32 << n)).filter(|&a| sat_assignment(cnf, a)).collect()
}

pub fn mask_to_cfg(a: u32, n: u32) -> Vec<i32> {
    (1..=n as i32)
        .map(|v| if (a >> (v - 1)) & 1 == 1 { v } else { -v })
        .collect()
}

/// CNF whose model set over 1..n is exactly the given truth table (bit a of tt = value on a)
pub fn cnf_of_table(tt: u64, n: u32) -> Cnf {
    let mut cnf = Vec::new();
    for a in 0..(1u32 << n) {
        if (tt >> a) & 1 == 0 {
            // forbid assignment a
            cnf.push(
                (1..=n as i32)
                    .map(|v| if (a >> (v - 1)) & 1 == 1 { -v } else { v })
                    .collect(),
            );
        }
    }
    // light simplification: merge clauses differing in one literal (resolution of x / -x)
    let mut set: BTreeSet<Clause> = cnf.into_iter().collect();
    loop {
        let mut changed = false;
        let v: Vec<Clause> = set.iter().cloned().collect();
        'outer: for c in &v {
            for (i, &l) in c.iter().enumerate() {
                let mut d = c.clone();
                d[i] = -l;
                d.sort_by_key(|x| (x.abs(), *x));
                let mut cs = c.clone();
                cs.sort_by_key(|x| (x.abs(), *x));
                if set.contains(&d) && set.contains(&cs) {
                    let mut m = c.clone();
                    m.remove(i);
                    set.remove(&d);
                    set.remove(&cs);
                    set.insert(m);
                    changed = true;
                    break 'outer;
                }
            }
        }
        if !changed {
            break;
        }
    }
    set.into_iter().collect()
}

pub fn random_cnf(rng: &mut Rng, n: u32, nclauses: usize, maxw: usize) -> Cnf {
    let mut cnf = Vec::new();
    for _ in 0..nclauses {
        let w = 1 + rng.below(maxw as u64) as usize;
        let mut c: Clause = Vec::new();
        for _ in 0..w {
            let v = 1 + rng.below(n as u64) as i32;
            if c.iter().any(|l: &i32| l.abs() == v) {
                continue;
            }
            c.push(if rng.coin() { v } else { -v });
        }
        cnf.push(c);
    }
    cnf
}

// ---------------------------------------------------------------------------------------------
// c2d with n-ary or nodes: multiway decisions on blocks of 1..3 variables (the format allows any
// number of children although c2d itself emits binary decisions)

pub fn emit_c2d_multiway(models: &[u32], n: u32, rng: &mut Rng) -> Vec<String> {
    struct B {
        lines: Vec<String>,
        lit: HashMap<i32, usize>,
        edges: usize,
    }
    impl B {
        fn lit(&mut self, l: i32) -> usize {
            if let Some(&i) = self.lit.get(&l) {
                return i;
            }
            self.lines.push(format!("L {}", l));
            self.lit.insert(l, self.lines.len() - 1);
            self.lines.len() - 1
        }
        fn node(&mut self, kind: &str, kids: &[usize]) -> usize {
            if kids.len() == 1 {
                return kids[0];
            }
            let mut s = if kind == "A" { format!("A {}", kids.len()) } else { format!("O 0 {}", kids.len()) };
            for k in kids {
                s.push_str(&format!(" {}", k));
            }
            self.edges += kids.len();
            self.lines.push(s);
            self.lines.len() - 1
        }
    }
    fn go(b: &mut B, models: &[u32], vars: &[u32], rng: &mut Rng) -> usize {
        // models: assignments (bit v-1) restricted to `vars`; non-empty
        // with four or more variables left keep at least two for the branches below: a branch
        // that is tautological over them then misses several features at once (smoothing)
        let k = if vars.len() >= 4 { 1 + rng.below(2) as usize } else { (1 + rng.below(3) as usize).min(vars.len()) };
        let (block, rest) = vars.split_at(k);
        let mut branches = Vec::new();
        for a in 0..(1u32 << k) {
            let sel: Vec<u32> = models
                .iter()
                .copied()
                .filter(|m| block.iter().enumerate().all(|(i, v)| ((m >> (v - 1)) & 1) == ((a >> i) & 1)))
                .collect();
            if sel.is_empty() {
                continue;
            }
            let mut kids: Vec<usize> = block
                .iter()
                .enumerate()
                .map(|(i, v)| b.lit(if (a >> i) & 1 == 1 { *v as i32 } else { -(*v as i32) }))
                .collect();
            if !rest.is_empty() {
                kids.push(go(b, &sel, rest, rng));
            }
            branches.push(b.node("A", &kids));
        }
        b.node("O", &branches)
    }
    let mut b = B { lines: Vec::new(), lit: HashMap::new(), edges: 0 };
    let mut vars: Vec<u32> = (1..=n).collect();
    rng.shuffle(&mut vars);
    go(&mut b, models, &vars, rng);
    let mut out = vec![format!("nnf {} {} {}", b.lines.len(), b.edges, n)];
    out.extend(b.lines);
    out
}

/// rename the variables of a CNF (injective map old -> new)
pub fn rename_cnf(cnf: &Cnf, map: &dyn Fn(u32) -> u32) -> Cnf {
    cnf.iter()
        .map(|c| c.iter().map(|&l| if l > 0 { map(l as u32) as i32 } else { -(map((-l) as u32) as i32) }).collect())
        .collect()
}

/// d4 text of `dag` with node ids starting at `first` (declarations before use); returns the lines
/// and the id of the dag's root
fn emit_d4_offset(dag: &Dag, first: usize) -> (Vec<String>, usize, usize) {
    fn go(dag: &Dag, n: usize, ids: &mut HashMap<usize, usize>, next: &mut usize, lines: &mut Vec<String>) -> usize {
        if let Some(&id) = ids.get(&n) {
            return id;
        }
        let id = *next;
        *next += 1;
        ids.insert(n, id);
        match &dag.nodes[n] {
            DNode::Or(edges) => {
                lines.push(format!("o {} 0", id));
                let cids: Vec<usize> = edges.iter().map(|(_, c)| go(dag, *c, ids, next, lines)).collect();
                for ((lits, _), cid) in edges.iter().zip(cids) {
                    let mut s = format!("{} {}", id, cid);
                    for l in lits {
                        s.push_str(&format!(" {}", l));
                    }
                    s.push_str(" 0");
                    lines.push(s);
                }
            }
            DNode::And(kids) => {
                lines.push(format!("a {} 0", id));
                let cids: Vec<usize> = kids.iter().map(|c| go(dag, *c, ids, next, lines)).collect();
                for cid in cids {
                    lines.push(format!("{} {} 0", id, cid));
                }
            }
            DNode::True => lines.push(format!("t {} 0", id)),
            DNode::False => lines.push(format!("f {} 0", id)),
        }
        id
    }
    let mut ids = HashMap::new();
    let mut next = first;
    let mut lines = Vec::new();
    let root = go(dag, dag.root, &mut ids, &mut next, &mut lines);
    (lines, root, next)
}

/// A d4 file with a DEAD two-level and-chain: root decision on x; the x-branch is
/// and( <live dag of cnf|x>, and( f ) ), the not-x branch is the live dag of cnf|not-x.
/// The file denotes cnf AND not-x (returned as the effective source formula).
pub fn emit_d4_dead_chain(cnf: &Cnf, x: i32, opts: &Opts) -> Option<(Vec<String>, Cnf)> {
    dead_chain(cnf, x, opts, &BTreeSet::new())
}

/// The dead-chain file one level down: a fresh decision y on top,
///   y -> (the dead-chain file of (cnf, x)),  -y -> cnf,
/// so a feature of the dead part may be unmentioned in the dead chain's live sibling and still be
/// mentioned on a live branch (the -y branch).  Function: cnf and (not y or not x).
pub fn emit_d4_dead_chain_nested(cnf: &Cnf, x: i32, y: u32, opts: &Opts) -> Option<(Vec<String>, Cnf)> {
    let o2 = Opts { keep_false: false, and_false: false, ..opts.clone() };
    let dg = compile(cnf, &o2)?;
    // ids of the -y branch are not known yet: emit it at a large offset first to learn what it mentions
    let (lg0, _, _) = emit_d4_offset(&dg, 1);
    let live_elsewhere = mentioned_vars(&lg0);
    let (inner, _) = dead_chain(cnf, x, opts, &live_elsewhere)?;
    let mut lines = vec!["o 1 0".to_string()];
    let mut max_id = 1usize;
    for l in &inner {
        let t: Vec<&str> = l.split_whitespace().collect();
        if t[0].parse::<usize>().is_ok() {
            let from: usize = t[0].parse().unwrap();
            let to: usize = t[1].parse().unwrap();
            lines.push(format!("{} {} {}", from + 1, to + 1, t[2..].join(" ")));
        } else {
            let id: usize = t[1].parse().unwrap();
            max_id = max_id.max(id + 1);
            lines.push(format!("{} {} 0", t[0], id + 1));
        }
    }
    let (lg, rg, _) = emit_d4_offset(&dg, max_id + 1);
    lines.extend(lg);
    lines.push(format!("1 2 {} 0", y));
    lines.push(format!("1 {} -{} 0", rg, y));
    let mut eff = cnf.clone();
    eff.push(vec![-(y as i32), -x]);
    Some((lines, eff))
}

fn mentioned_vars(lines: &[String]) -> BTreeSet<u32> {
    let mut s = BTreeSet::new();
    for l in lines {
        let t: Vec<&str> = l.split_whitespace().collect();
        if t.len() >= 3 && t[0].parse::<i64>().is_ok() {
            for x in &t[2..t.len() - 1] {
                if let Ok(v) = x.parse::<i64>() {
                    s.insert(v.unsigned_abs() as u32);
                }
            }
        }
    }
    s
}

fn dead_chain(cnf: &Cnf, x: i32, opts: &Opts, live_elsewhere: &BTreeSet<u32>) -> Option<(Vec<String>, Cnf)> {
    let (pos, _) = propagate(cnf, &[x])?;
    let (neg, implied) = propagate(cnf, &[-x])?;
    // the dead branch must not be the only place where a feature is mentioned (in d4's own output
    // a feature mentioned below a false edge is always mentioned on a live branch as well; the
    // loader decides "unmentioned = free" before it removes dead branches)
    let o2 = Opts { keep_false: false, and_false: false, ..opts.clone() };
    let dpos = compile(&pos, &o2)?;
    let dneg = compile(&neg, &o2)?;
    let mut lines = vec!["o 1 0".to_string(), "a 2 0".to_string(), "a 3 0".to_string(), "f 4 0".to_string()];
    let (lp, rp, next) = emit_d4_offset(&dpos, 5);
    lines.extend(lp);
    lines.push("2 3 0".to_string());
    lines.push("3 4 0".to_string());
    lines.push(format!("2 {} 0", rp));
    let (ln, rn, _) = emit_d4_offset(&dneg, next);
    // features MENTIONED (edge literals) in the dead part must also be mentioned in the live part
    fn mentioned(lines: &[String]) -> BTreeSet<u32> {
        let mut s = BTreeSet::new();
        for l in lines {
            let t: Vec<&str> = l.split_whitespace().collect();
            if t.len() >= 3 && t[0].parse::<i64>().is_ok() {
                for x in &t[2..t.len() - 1] {
                    if let Ok(v) = x.parse::<i64>() {
                        s.insert(v.unsigned_abs() as u32);
                    }
                }
            }
        }
        s
    }
    let mut live_vars = mentioned(&ln);
    live_vars.extend(implied.iter().map(|l| l.unsigned_abs()));
    live_vars.insert(x.unsigned_abs());
    live_vars.extend(live_elsewhere.iter().copied());
    if mentioned(&lines).iter().any(|v| !live_vars.contains(v)) {
        return None;
    }
    lines.extend(ln);
    lines.push(format!("1 2 {} 0", x));
    let mut s = format!("1 {} {}", rn, -x);
    for l in implied {
        s.push_str(&format!(" {}", l));
    }
    s.push_str(" 0");
    lines.push(s);
    let mut eff = cnf.clone();
    eff.push(vec![-x]);
    Some((lines, eff))
}

/// d4 text with n-ary or nodes: multiway decisions on blocks of 1..3 variables; a branch whose
/// cofactor is a tautology over the remaining variables goes straight to the true node, so that
/// the loader has to smooth in several features at once below one or-child
pub fn emit_d4_multiway(models: &[u32], n: u32, rng: &mut Rng) -> Vec<String> {
    struct B {
        lines: Vec<String>,
        next: usize,
        t: Option<usize>,
    }
    fn tnode(b: &mut B) -> usize {
        if let Some(t) = b.t {
            return t;
        }
        let id = b.next;
        b.next += 1;
        b.lines.push(format!("t {} 0", id));
        b.t = Some(id);
        id
    }
    fn go(b: &mut B, models: &[u32], vars: &[u32], rng: &mut Rng) -> usize {
        let id = b.next;
        b.next += 1;
        b.lines.push(format!("o {} 0", id));
        // with four or more variables left keep at least two for the branches below: a branch
        // that is tautological over them then misses several features at once (smoothing)
        let k = if vars.len() >= 4 { 1 + rng.below(2) as usize } else { (1 + rng.below(3) as usize).min(vars.len()) };
        let (block, rest) = vars.split_at(k);
        let mut edges = Vec::new();
        for a in 0..(1u32 << k) {
            let sel: Vec<u32> = models
                .iter()
                .copied()
                .filter(|m| block.iter().enumerate().all(|(i, v)| ((m >> (v - 1)) & 1) == ((a >> i) & 1)))
                .collect();
            if sel.is_empty() {
                continue;
            }
            let lits: Vec<i32> = block
                .iter()
                .enumerate()
                .map(|(i, v)| if (a >> i) & 1 == 1 { *v as i32 } else { -(*v as i32) })
                .collect();
            // distinct projections onto the rest variables
            let mut proj: Vec<u32> = sel.iter().map(|m| rest.iter().fold(0u32, |acc, v| acc | (m & (1 << (v - 1))))).collect();
            proj.sort();
            proj.dedup();
            let child = if rest.is_empty() || proj.len() == (1usize << rest.len()) {
                tnode(b)
            } else {
                go(b, &sel, rest, rng)
            };
            edges.push((lits, child));
        }
        for (lits, c) in edges {
            let mut s = format!("{} {}", id, c);
            for l in lits {
                s.push_str(&format!(" {}", l));
            }
            s.push_str(" 0");
            b.lines.push(s);
        }
        id
    }
    let mut b = B { lines: Vec::new(), next: 1, t: None };
    let mut vars: Vec<u32> = (1..=n).collect();
    rng.shuffle(&mut vars);
    go(&mut b, models, &vars, rng);
    b.lines
}
