//! C06 (enumeration paging) and C07 (uniform random sampling with the recorded choice stream).
use crate::common::*;
use crate::k_c01::{make_input, sources, write_models, Input};
use crate::k_ops::{all_partial, random_list};
use crate::rng::Rng;
use ddnnife::ddnnf::anomalies::config_creation::verif as hook;
use ddnnife::Ddnnf;
use std::fmt::Write as _;
use std::io::Write;

pub const KINDS: &[&str] = &["c06", "c07", "c07u"];

pub fn fmt_cfgs(v: &[Vec<i32>]) -> String {
    if v.is_empty() {
        return "empty".to_string();
    }
    v.iter().map(|c| join(c)).collect::<Vec<_>>().join(" ; ")
}

pub fn run_enum(d: &mut Ddnnf, a: &[i32], k: usize, s: &mut String) {
    writeln!(s, "op enum {} | {}", k, join(a)).unwrap();
    let mut a2 = a.to_vec();
    match guarded(|| d.enumerate(&mut a2, k)) {
        Ok(Some(l)) => writeln!(s, "r {}", fmt_cfgs(&l)).unwrap(),
        Ok(None) => writeln!(s, "r none").unwrap(),
        Err(e) => writeln!(s, "panic {}", e).unwrap(),
    }
    let clean = d.verif_markers().iter().all(|m| !m) && d.md.is_empty();
    writeln!(s, "clean {}", clean as u8).unwrap();
}

pub fn fmt_choices(ch: &[hook::Choice]) -> String {
    ch.iter()
        .map(|c| match c {
            hook::Choice::Split(v) => format!("S {}", join(v)),
            hook::Choice::Perm(p) => format!("P {}", join(p)),
        })
        .collect::<Vec<_>>()
        .join(" ; ")
}

pub fn run_sample(d: &mut Ddnnf, a: &[i32], k: usize, seed: u64, s: &mut String) {
    writeln!(s, "op sample {} {} | {}", k, seed, join(a)).unwrap();
    hook::start_choice_log();
    let r = guarded(|| d.uniform_random_sampling(a, k, seed));
    let ch = hook::take_choice_log();
    match r {
        Ok(Some(l)) => writeln!(s, "r {}", fmt_cfgs(&l)).unwrap(),
        Ok(None) => writeln!(s, "r none").unwrap(),
        Err(e) => writeln!(s, "panic {}", e).unwrap(),
    }
    writeln!(s, "ch {}", fmt_choices(&ch)).unwrap();
    let clean = d.verif_markers().iter().all(|m| !m) && d.md.is_empty();
    writeln!(s, "clean {}", clean as u8).unwrap();
}

fn count_under(inp: &Input, a: &[i32]) -> Option<usize> {
    inp.models.as_ref().map(|ms| {
        ms.iter()
            .filter(|&&m| {
                a.iter().all(|&l| {
                    let bit = (m >> (l.unsigned_abs() - 1)) & 1 == 1;
                    if l > 0 { bit } else { !bit }
                })
            })
            .count()
    })
}

fn header(kind_tag: &str, inp: &Input, s: &mut String) {
    writeln!(s, "case {} {}", inp.id, kind_tag).unwrap();
    writeln!(s, "info {}", inp.desc).unwrap();
    writeln!(s, "n {}", inp.n).unwrap();
    write_models(s, inp);
    s.push_str(&file_block(inp.format, &inp.lines));
}

pub fn run(kind: &str, ctx: &Ctx, out: &mut dyn Write) {
    let mut rng = Rng::new(ctx.seed ^ 0x5eed_0006);
    let quick = ctx.tier != "thorough";
    let mut srcs = sources(ctx, &mut rng);
    if kind == "c06" {
        // models with more than 20 features: only there an assumption SET can have more than 20
        // literals (the cursor key is de-duplicated since F19), i.e. reach the default counting
        // strategy from enumerate; no truth table at that size (model and no-panic oracle only)
        for i in 0..(if quick { 6 } else { 24 }) {
            let n0 = 3 + rng.below(3) as u32;
            let m = 1 + rng.below(2 * n0 as u64) as usize;
            let cnf = crate::gen::random_cnf(&mut rng, n0, m, 3);
            srcs.push(crate::k_c01::Source { cnf, n: 22 + rng.below(4) as u32, desc: format!("wide#{} n0={} m={} (> 20 features)", i, n0, m) });
        }
    }
    let mut k = 0;
    for src in srcs.iter() {
        let wide_true = kind == "c06" && src.n > 20 && rng.coin();
        let inp = if wide_true {
            // a c2d file that keeps its true nodes (below and nodes)
            let opts = crate::gen::Opts::random(&mut rng, src.n);
            match crate::gen::compile(&src.cnf, &opts) {
                Some(dag) => Input {
                    id: format!("{}-{}", kind, k),
                    n: src.n,
                    format: "c2d",
                    lines: crate::gen::emit_c2d(&dag, src.n, &crate::gen::C2dOpts { keep_true: true, keep_false: false }),
                    desc: format!("{} | {} c2d keep_true=1", src.desc, opts.describe()),
                    models: None,
                },
                None => continue,
            }
        } else {
            match make_input(format!("{}-{}", kind, k), src, &mut rng) {
                Some(i) => i,
                None => continue,
            }
        };
        k += 1;
        let mut s = String::new();
        let tag = match kind { "c06" => "C06", "c07" => "C07", _ => "C07U" };
        header(tag, &inp, &mut s);
        match load(&inp.lines, Some(inp.n)) {
            Err(e) => writeln!(s, "impl panic {}", e).unwrap(),
            Ok(mut d) => {
                s.push_str(&dump_circuit(&d));
                // a freshly loaded model starts with a fresh cursor (F21): nothing to reset
                let n = inp.n;
                // a few assumption lists per model
                let mut lists: Vec<Vec<i32>> = vec![vec![]];
                if n <= 4 {
                    let mut all = all_partial(n);
                    rng.shuffle(&mut all);
                    lists.extend(all.into_iter().take(if quick { 3 } else if kind == "c07" { 6 } else { 12 }));
                } else {
                    for _ in 0..(if quick { 3 } else { 8 }) {
                        let len = rng.below(4) as usize;
                        lists.push(random_list(&mut rng, n, len, true));
                    }
                }
                lists.push(random_list(&mut rng, n, 2, false)); // possibly contradictory
                lists.push(random_list(&mut rng, n, 22, true)); // default-strategy route
                if n > 20 {
                    // 21 literals over distinct features (survives the de-duplication of the key)
                    let l: Vec<i32> = ((n - 20)..=n).map(|f| if rng.coin() { f as i32 } else { -(f as i32) }).collect();
                    lists.push(l);
                }
                match kind {
                    "c06" => {
                        for a in lists.iter() {
                            let c = count_under(&inp, a).unwrap_or(7);
                            // sequences over {1,2,3,5,c,c+1} until two cycles are complete
                            let mut handed = 0usize;
                            let target = 2 * c.max(1) + 1;
                            let mut steps = 0;
                            while handed < target && steps < (if quick { 12 } else { 40 }) {
                                let amount = *rng.pick(&[1usize, 2, 3, 5, c.max(1), c + 1]);
                                let mut a2 = a.clone();
                                // F19 (finding K12): the cursor belongs to the SET of literals -
                                // every third call repeats some of them, every call permutes them
                                if !a.is_empty() && rng.chance(1, 3) {
                                    for _ in 0..(1 + rng.below(2)) {
                                        let extra = *rng.pick(a);
                                        a2.push(extra);
                                    }
                                }
                                rng.shuffle(&mut a2);
                                run_enum(&mut d, &a2, amount, &mut s);
                                handed += amount;
                                steps += 1;
                            }
                        }
                        run_enum(&mut d, &[], 0, &mut s);
                        // history with an edit: a unit clause over the NEXT new variable (no compiler
                        // needed, the count stays the same) while cursors are somewhere in their
                        // cycles; the edited model must page from the start of its own cycle
                        if let (Some(ms), true) = (inp.models.as_ref(), n <= 10 && k % 3 == 0) {
                            use ddnnife::parser::intermediate_representation::{ClauseApplication, IncrementalStrategy};
                            run_enum(&mut d, &[], 1, &mut s); // leave the cursor of [] mid-cycle
                            let newf = (n + 1) as i32;
                            let r = guarded(|| d.prepare_and_apply_incremental_edit(vec![(vec![newf], ClauseApplication::Add)]));
                            if let Ok(IncrementalStrategy::UnitClause) = r {
                                writeln!(s, "end").unwrap();
                                out.write_all(s.as_bytes()).unwrap();
                                s = String::new();
                                let edited = Input {
                                    id: format!("{}-edited", inp.id),
                                    n: n + 1,
                                    desc: format!("{} | then unit clause [{}] added incrementally (same instance, cursors mid-cycle)", inp.desc, newf),
                                    models: Some(ms.iter().map(|m| m | (1u32 << n)).collect()),
                                    ..inp.clone()
                                };
                                writeln!(s, "case {} C06", edited.id).unwrap();
                                writeln!(s, "info {}", edited.desc).unwrap();
                                writeln!(s, "n {}", edited.n).unwrap();
                                write_models(&mut s, &edited);
                                s.push_str(&dump_circuit(&d));
                                let c = ms.len().max(1);
                                for amount in [1usize, 2, c, 1, c + 1] {
                                    run_enum(&mut d, &[], amount, &mut s);
                                }
                                run_enum(&mut d, &[newf], 2, &mut s);
                            }
                        }
                    }
                    "c07" => {
                        for a in lists.iter() {
                            let amount = *rng.pick(&[0usize, 1, 2, 3, 17, 100]);
                            let seed = rng.below(1000);
                            run_sample(&mut d, a, amount, seed, &mut s);
                            // the same request again on the same instance
                            run_sample(&mut d, a, amount, seed, &mut s);
                        }
                        if !quick && k % 40 == 0 {
                            run_sample(&mut d, &[], 1000, rng.below(1000), &mut s);
                        }
                    }
                    _ => {
                        // uniformity: pooled draws over seeds for one (model, A) with <= 256 models
                        // (at most about 2500 such tests per run: 40 000 draws each)
                        let stride = srcs.len() / 2500 + 1;
                        let a = lists[rng.below(lists.len() as u64) as usize].clone();
                        let c = count_under(&inp, &a).unwrap_or(0);
                        if c >= 2 && c <= 256 && k % stride == 0 {
                            let draws_per_call = 500;
                            let calls = 80; // 40 000 draws
                            let mut tally: std::collections::BTreeMap<Vec<i32>, usize> = Default::default();
                            let mut bad = None;
                            for call in 0..calls {
                                let seed = rng.next();
                                match guarded(|| d.uniform_random_sampling(&a, draws_per_call, seed)) {
                                    Ok(Some(l)) => {
                                        for cfg in l {
                                            *tally.entry(cfg).or_insert(0) += 1;
                                        }
                                    }
                                    other => {
                                        bad = Some(format!("call {} returned {:?}", call, other.map(|o| o.map(|l| l.len()))));
                                        break;
                                    }
                                }
                            }
                            writeln!(s, "op uniform {} | {}", draws_per_call * calls, join(&a)).unwrap();
                            if let Some(b) = bad {
                                writeln!(s, "panic {}", b).unwrap();
                            } else {
                                let t: Vec<String> = tally.iter().map(|(c, k)| format!("{}:{}", join(c).replace(' ', ","), k)).collect();
                                writeln!(s, "r {}", t.join(" ")).unwrap();
                            }
                        }
                    }
                }
            }
        }
        writeln!(s, "end").unwrap();
        out.write_all(s.as_bytes()).unwrap();
    }
}
