//! Stand-in for the d4 compiler (hook H1): reads a DIMACS file, compiles it with the reference
//! compiler of gen.rs and returns d4 text.  Every output is validated by the callers against the
//! truth table of the CNF (the compiler contract recorded in the trusted base).
use crate::gen::{compile, emit_d4, Cnf, Opts};
use crate::rng::Rng;
use std::path::Path;

pub fn read_dimacs(path: &Path) -> (Cnf, u32) {
    let text = std::fs::read_to_string(path).expect("cannot read cnf");
    let mut n = 0u32;
    let mut cnf: Cnf = Vec::new();
    for line in text.lines() {
        let line = line.trim();
        if line.is_empty() || line.starts_with('c') {
            continue;
        }
        if line.starts_with('p') {
            let t: Vec<&str> = line.split_whitespace().collect();
            n = t[2].parse().unwrap();
            continue;
        }
        let mut c: Vec<i32> = line.split_whitespace().map(|x| x.parse().unwrap()).collect();
        assert_eq!(c.pop(), Some(0));
        cnf.push(c);
    }
    (cnf, n)
}

/// deterministic stand-in: fixed options (component decomposition, sharing, no false edges)
pub fn standin(path: &Path) -> (Vec<String>, u32) {
    let (cnf, n) = read_dimacs(path);
    let mentioned = cnf.iter().flatten().map(|l| l.unsigned_abs()).max().unwrap_or(0);
    let total = n.max(mentioned);
    let opts = Opts {
        decomp: true,
        share: true,
        keep_false: false,
        and_false: false,
        neg_first: false,
        interleave: true,
        order: (1..=total).collect(),
    };
    let mut rng = Rng::new(0);
    match compile(&cnf, &opts) {
        Some(dag) => (emit_d4(&dag, &opts, &mut rng), total),
        // unsatisfiable formula: d4 emits a lone false node
        None => (vec!["f 1 0".to_string()], total),
    }
}

pub fn register() {
    ddnnife::parser::verif::set_cnf_compiler(Some(standin));
}

pub fn write_dimacs(path: &Path, cnf: &Cnf, n: u32) {
    let mut s = format!("p cnf {} {}\n", n, cnf.len());
    for c in cnf {
        for l in c {
            s.push_str(&format!("{} ", l));
        }
        s.push_str("0\n");
    }
    std::fs::write(path, s).unwrap();
}
