//! C20: best configuration and top-k configurations under an objective vector.
//! C01 input space x integer-valued objective vectors (negative, zero, ties) x assumption lists
//! x k in 1..count+1, through hook H5 (ExtendedDdnnf::verif_with_objective_values,
//! OptimalConfig::verif_literals / verif_value).  Plus the wide-And case (70 free features).
//!
//! Block lines:
//!   query <qi> k <K> vals <v1..vn> A <a..>
//!   impl best <qi> none | impl best <qi> some <value> <literal vector>
//!   impl bestpanic <qi> <msg>
//!   impl topk <qi> <j> <value> <literal vector>      (j-th result)
//!   impl topkdone <qi> <number of results>
//!   impl topkpanic <qi> <msg>
use crate::common::*;
use crate::k_c01::{make_input, sources, write_models};
use crate::rng::Rng;
use ddnnife::ddnnf::extended_ddnnf::ExtendedDdnnf;
use ddnnife::Ddnnf;
use num::ToPrimitive;
use std::fmt::Write as _;
use std::io::Write;

pub const KINDS: &[&str] = &["c20", "c20wide"];

fn fmt_val(v: f64) -> String {
    if v.fract() == 0.0 && v.abs() < 9.0e15 {
        format!("{}", v as i64)
    } else {
        format!("nonint:{:e}", v)
    }
}

fn random_vals(rng: &mut Rng, n: u32) -> Vec<i64> {
    // small ranges make ties frequent; every vector class appears
    let (lo, hi) = match rng.below(6) {
        0 => (-1, 1),
        1 => (0, 2),
        2 => (-2, 0),
        3 => (-9, 9),
        _ => (-3, 3),
    };
    (0..n).map(|_| rng.range(lo, hi)).collect()
}

fn random_assumptions(rng: &mut Rng, n: u32) -> Vec<i32> {
    let len = match rng.below(8) {
        0 | 1 | 2 => 0,
        3 | 4 => 1,
        5 | 6 => 2,
        _ => 3,
    };
    let mut a = Vec::new();
    for _ in 0..len {
        let v = 1 + rng.below(n as u64) as i32;
        a.push(if rng.coin() { v } else { -v });
    }
    if !a.is_empty() && rng.chance(1, 10) {
        // repetition or contradiction
        let l = a[0];
        a.push(if rng.coin() { l } else { -l });
    }
    a
}

/// one query against a fresh ExtendedDdnnf; appends the impl lines
fn run_query(s: &mut String, qi: usize, d: &Ddnnf, vals: &[i64], a: &[i32], k: usize) {
    writeln!(s, "query {} k {} vals {} A {}", qi, k, join(vals), join(a)).unwrap();
    let fvals: Vec<f64> = vals.iter().map(|&v| v as f64).collect();
    let ext = ExtendedDdnnf::verif_with_objective_values(d.clone(), fvals);
    match guarded(|| ext.calc_best_config(a).map(|c| (c.verif_value(), c.verif_literals()))) {
        Err(e) => writeln!(s, "impl bestpanic {} {}", qi, e).unwrap(),
        Ok(None) => writeln!(s, "impl best {} none", qi).unwrap(),
        Ok(Some((v, lits))) => writeln!(s, "impl best {} some {} {}", qi, fmt_val(v), join(&lits)).unwrap(),
    }
    match guarded(|| {
        ext.calc_top_k_configs(k, a)
            .iter()
            .map(|c| (c.verif_value(), c.verif_literals()))
            .collect::<Vec<_>>()
    }) {
        Err(e) => writeln!(s, "impl topkpanic {} {}", qi, e).unwrap(),
        Ok(res) => {
            for (j, (v, lits)) in res.iter().enumerate() {
                writeln!(s, "impl topk {} {} {} {}", qi, j, fmt_val(*v), join(lits)).unwrap();
            }
            writeln!(s, "impl topkdone {} {}", qi, res.len()).unwrap();
        }
    }
}

fn pick_k(rng: &mut Rng, count: usize) -> usize {
    // k in 1..=count+1 (count = models under the assumptions; 0 when unsatisfiable).
    // Above 299 models k stays below 300 (the list-based heap of the extracted model is quadratic in k).
    let top = count + 1;
    if top > 300 {
        return match rng.below(4) {
            0 => 1,
            1 => 2,
            2 => 1 + rng.below(64) as usize,
            _ => 65 + rng.below(235) as usize,
        };
    }
    match rng.below(6) {
        0 => 1,
        1 => top,
        2 => count.max(1),
        3 => 2.min(top),
        _ => 1 + rng.below(top.min(64) as u64) as usize,
    }
}

/// c2d text of n free features: And over n or-triangles
fn wide_and_lines(n: u32) -> Vec<String> {
    let mut lines = vec![format!("nnf {} {} {}", 3 * n + 1, 3 * n, n)];
    for i in 1..=n {
        lines.push(format!("L {}", i));
        lines.push(format!("L -{}", i));
        lines.push(format!("O {} 2 {} {}", i, 3 * (i - 1), 3 * (i - 1) + 1));
    }
    let kids: Vec<String> = (0..n).map(|i| (3 * i + 2).to_string()).collect();
    lines.push(format!("A {} {}", n, kids.join(" ")));
    lines
}

/// build profile of this harness binary (the overflow behaviour of /repo differs per profile)
fn profile() -> &'static str {
    if cfg!(debug_assertions) {
        "dbg"
    } else {
        "rel"
    }
}

fn wide_cases(rng: &mut Rng, out: &mut dyn Write) {
    // 63 children: the product 2^63 still fits; 64 and 70: it does not
    for (w, n) in [63u32, 64, 70].iter().enumerate() {
        let lines = wide_and_lines(*n);
        let mut s = String::new();
        writeln!(s, "case c20-{}-wide-{} C20", profile(), n).unwrap();
        writeln!(s, "info wide And: {} free features (c2d text, And over {} or-triangles), harness profile {}", n, n, profile()).unwrap();
        writeln!(s, "n {}", n).unwrap();
        s.push_str(&file_block("c2d", &lines));
        match load(&lines, Some(*n)) {
            Err(e) => writeln!(s, "impl panic {}", e).unwrap(),
            Ok(d) => {
                s.push_str(&dump_circuit(&d));
                writeln!(s, "impl rc {}", d.rc()).unwrap();
                let mut qi = 0;
                for k in [1usize, 2, 3, 5] {
                    let vals = if w == 2 && k == 2 { vec![1i64; *n as usize] } else { random_vals(rng, *n) };
                    let a = if k == 5 { vec![3, -7] } else { vec![] };
                    run_query(&mut s, qi, &d, &vals, &a, k);
                    qi += 1;
                }
            }
        }
        writeln!(s, "end").unwrap();
        out.write_all(s.as_bytes()).unwrap();
    }
}

pub fn run(kind: &str, ctx: &Ctx, out: &mut dyn Write) {
    let mut rng = Rng::new(ctx.seed);
    wide_cases(&mut rng, out);
    let mut ctx2 = Ctx { seed: ctx.seed, tier: ctx.tier.clone(), count: ctx.count };
    if kind == "c20wide" {
        // the release-profile run: the wide cases plus a sample of the input space
        ctx2.count = ctx.count / 4;
    }
    let srcs = sources(&ctx2, &mut rng);
    let stride = if kind == "c20wide" { 5 } else { 1 };
    let mut k_id = 0;
    let mut hist_k = [0usize; 4]; // k=1, 1<k<count, k=count, k=count+1
    let mut unsat = 0usize;
    let mut queries = 0usize;
    for (si, src) in srcs.iter().enumerate() {
        if si % stride != 0 {
            continue;
        }
        let inp = match make_input(format!("c20-{}-{}", profile(), k_id), src, &mut rng) {
            Some(i) => i,
            None => continue,
        };
        k_id += 1;
        let mut s = String::new();
        writeln!(s, "case {} C20", inp.id).unwrap();
        writeln!(s, "info {}", inp.desc).unwrap();
        writeln!(s, "n {}", inp.n).unwrap();
        write_models(&mut s, &inp);
        s.push_str(&file_block(inp.format, &inp.lines));
        match load(&inp.lines, Some(inp.n)) {
            Err(e) => writeln!(s, "impl panic {}", e).unwrap(),
            Ok(d) => {
                s.push_str(&dump_circuit(&d));
                writeln!(s, "impl rc {}", d.rc()).unwrap();
                let nq = if inp.n <= 5 { 4 } else { 3 };
                for qi in 0..nq {
                    let vals = random_vals(&mut rng, inp.n);
                    let a = random_assumptions(&mut rng, inp.n);
                    let count = {
                        let mut dd = d.clone();
                        let a2 = a.clone();
                        guarded(move || dd.execute_query(&a2).to_usize().unwrap_or(usize::MAX))
                    };
                    let count = count.unwrap_or(0).min(1 << 13);
                    let k = pick_k(&mut rng, count);
                    if count == 0 {
                        unsat += 1;
                    }
                    let cls = if k == 1 { 0 } else if k == count + 1 { 3 } else if k == count { 2 } else { 1 };
                    hist_k[cls] += 1;
                    queries += 1;
                    run_query(&mut s, qi, &d, &vals, &a, k);
                }
            }
        }
        writeln!(s, "end").unwrap();
        out.write_all(s.as_bytes()).unwrap();
    }
    eprintln!(
        "c20: inputs={} queries={} unsat={} k=1:{} 1<k<count:{} k=count:{} k=count+1:{}",
        k_id, queries, unsat, hist_k[0], hist_k[1], hist_k[2], hist_k[3]
    );
}
