//! One deterministic PRNG (splitmix64) for every random choice of the harness.
#[derive(Clone)]
pub struct Rng(pub u64);

impl Rng {
    pub fn new(seed: u64) -> Rng {
        Rng(seed.wrapping_mul(0x9E37_79B9_7F4A_7C15) ^ 0xD1B5_4A32_D192_ED03)
    }
    pub fn next(&mut self) -> u64 {
        self.0 = self.0.wrapping_add(0x9E37_79B9_7F4A_7C15);
        let mut z = self.0;
        z = (z ^ (z >> 30)).wrapping_mul(0xBF58_476D_1CE4_E5B9);
        z = (z ^ (z >> 27)).wrapping_mul(0x94D0_49BB_1331_11EB);
        z ^ (z >> 31)
    }
    /// uniform in 0..n (n > 0)
    pub fn below(&mut self, n: u64) -> u64 {
        self.next() % n
    }
    pub fn range(&mut self, lo: i64, hi: i64) -> i64 {
        lo + (self.below((hi - lo + 1) as u64) as i64)
    }
    pub fn coin(&mut self) -> bool {
        self.next() & 1 == 1
    }
    pub fn chance(&mut self, num: u64, den: u64) -> bool {
        self.below(den) < num
    }
    pub fn shuffle<T>(&mut self, v: &mut [T]) {
        for i in (1..v.len()).rev() {
            let j = self.below((i + 1) as u64) as usize;
            v.swap(i, j);
        }
    }
    pub fn pick<'a, T>(&mut self, v: &'a [T]) -> &'a T {
        &v[self.below(v.len() as u64) as usize]
    }
}
