//! small manual probes (not part of any registered check)
use crate::common::*;
use std::io::Write;
pub const KINDS: &[&str] = &["probe-h1", "probe-edit", "probe-k2"];
pub fn run(kind: &str, _ctx: &Ctx, out: &mut dyn Write) {
    if kind == "probe-k2" {
        // the two failing inputs of repo_patches/F21-cursor-per-model.patch (finding K2)
        let big = vec!["t 1 0".to_string()];
        let small: Vec<String> = ["o 1 0", "t 2 0", "1 2 1 0", "1 2 -1 2 0"].iter().map(|x| x.to_string()).collect();
        let mut a = load(&big, Some(3)).unwrap();
        let mut b = load(&small, Some(2)).unwrap();
        writeln!(out, "A: enum l 5 => {:?}", guarded(|| a.handle_stream_msg("enum l 5"))).unwrap();
        writeln!(out, "B: enum     => {:?}", guarded(|| b.handle_stream_msg("enum"))).unwrap();
        crate::cnfc::register();
        let p = std::env::temp_dir().join(format!("probe-k2-{}.cnf", std::process::id()));
        crate::cnfc::write_dimacs(&p, &vec![], 2);
        let r = guarded(|| {
            let mut d = ddnnife::Ddnnf::from_file(&p, None);
            let mut log = Vec::new();
            for line in ["enum l 3", "clause-update add 1 0 2", "enum"] {
                log.push(format!("{} => {:?}", line, guarded(|| d.handle_stream_msg(line))));
            }
            log
        });
        let _ = std::fs::remove_file(&p);
        writeln!(out, "session on 'p cnf 2 0': {:?}", r).unwrap();
        return;
    }
    if kind == "probe-edit" {
        // PROBE_FILE = nnf file, PROBE_N = features, PROBE_LIT = unit clause added incrementally
        use ddnnife::parser::intermediate_representation::ClauseApplication;
        let file = std::env::var("PROBE_FILE").unwrap();
        let n: u32 = std::env::var("PROBE_N").unwrap().parse().unwrap();
        let l: i32 = std::env::var("PROBE_LIT").unwrap().parse().unwrap();
        let lines: Vec<String> = std::fs::read_to_string(&file).unwrap().lines().map(|x| x.to_string()).collect();
        let r = guarded(|| {
            let mut d = ddnnife::parser::distribute_building(lines.clone(), Some(n), None);
            let before = (d.rc(), d.execute_query(&[l]));
            let st = d.prepare_and_apply_incremental_edit(vec![(vec![l], ClauseApplication::Add)]);
            format!("before rc={} count[l]={} ; strategy {:?} ; after rc={} nodes={}", before.0, before.1, st as u8, d.rc(), d.nodes.len())
        });
        writeln!(out, "{:?}", r).unwrap();
        return;
    }
    crate::cnfc::register();
    let dir = std::path::Path::new("/verif/.cache/scratch");
    std::fs::create_dir_all(dir).unwrap();
    let p = dir.join("probe.cnf");
    crate::cnfc::write_dimacs(&p, &vec![vec![1, 2], vec![-1, 3]], 3);
    let r = guarded(|| {
        let mut d = ddnnife::Ddnnf::from_file(&p, None);
        let mut log = vec![format!("rc {}", d.rc())];
        for line in ["count a 1", "clause-update add -3", "count", "undo-update", "count", "clause-update add 1 2", "undo-update", "count", "save-cnf p /verif/.cache/scratch/out.cnf"] {
            log.push(format!("{} => {}", line, d.handle_stream_msg(line)));
        }
        log.push(std::fs::read_to_string("/verif/.cache/scratch/out.cnf").unwrap_or_default());
        log
    });
    writeln!(out, "{:?}", r).unwrap();
}
