//! small manual probes (not part of any registered check)
use crate::common::*;
use std::io::Write;
pub const KINDS: &[&str] = &["probe-h1"];
pub fn run(_kind: &str, _ctx: &Ctx, out: &mut dyn Write) {
    crate::cnfc::register();
    let dir = std::path::Path::new("/verif/.cache/scratch");
    std::fs::create_dir_all(dir).unwrap();
    let p = dir.join("probe.cnf");
    crate::cnfc::write_dimacs(&p, &vec![vec![1, 2], vec![-1, 3]], 3);
    let r = guarded(|| {
        let mut d = ddnnife::Ddnnf::from_file(&p, None);
        let mut log = vec![format!("rc {}", d.rc())];
        for line in ["count a 1", "clause-update add -3", "count", "undo-update", "count", "clause-update add 1 2", "undo-update", "count", "save-cnf p /verif/.cache/scratch/out.cnf"] {
            log.push(format!("{} => {}", line, d.handle_stream_msg(line)));
        }
        log.push(std::fs::read_to_string("/verif/.cache/scratch/out.cnf").unwrap_or_default());
        log
    });
    writeln!(out, "{:?}", r).unwrap();
}
