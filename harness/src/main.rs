//! vharness: runs the implementation (/repo/ddnnife, feature `verif`) on generated cases and
//! writes case blocks that the OCaml driver (extracted Coq model + spec oracles) judges.
mod cnfc;
mod common;
mod gen;
mod rng;

include!(concat!(env!("OUT_DIR"), "/mods.rs"));

use common::Ctx;
use std::io::Write;

fn main() {
    common::quiet_panics();
    let args: Vec<String> = std::env::args().collect();
    if args.len() < 2 {
        eprintln!("usage: vharness <kind> [--seed S] [--tier quick|thorough] [--count N] [--out FILE]");
        std::process::exit(2);
    }
    let kind = args[1].clone();
    let mut ctx = Ctx { seed: 1, tier: "quick".into(), count: 300 };
    let mut out_path: Option<String> = None;
    let mut i = 2;
    while i < args.len() {
        match args[i].as_str() {
            "--seed" => { ctx.seed = args[i + 1].parse().unwrap(); i += 2; }
            "--tier" => { ctx.tier = args[i + 1].clone(); i += 2; }
            "--count" => { ctx.count = args[i + 1].parse().unwrap(); i += 2; }
            "--out" => { out_path = Some(args[i + 1].clone()); i += 2; }
            other => { eprintln!("unknown argument {}", other); std::process::exit(2); }
        }
    }
    let mut out: Box<dyn Write> = match out_path {
        // unbuffered: every kind writes one complete case block per write, so whatever was written
        // before a crash of the process (stack overflow, abort) is a sequence of complete blocks
        Some(p) => Box::new(std::fs::File::create(p).unwrap()),
        None => Box::new(std::io::BufWriter::new(std::io::stdout())),
    };
    if !dispatch(kind.as_str(), &ctx, &mut out) {
        eprintln!("unknown kind {}", kind);
        std::process::exit(2);
    }
    out.flush().unwrap();
}
