//! CLI glue: the real `ddnnife` binary's subcommands against the library called in-process on the
//! same file ("the answer does not depend on whether it is asked through the library, the CLI, a
//! query file or the stream interface").  No model involved: the library side is what the other
//! checks tie to the Coq model.
use crate::common::*;
use crate::k_c01::{make_input, sources};
use crate::k_ops::random_list;
use crate::rng::Rng;
use std::fmt::Write as _;
use std::io::Write;
use std::process::Command;

pub const KINDS: &[&str] = &["cli"];

fn run_cli(bin: &std::path::Path, file: &std::path::Path, n: u32, args: &[String]) -> String {
    let out = Command::new(bin)
        .arg("-i")
        .arg(file)
        .arg("-t")
        .arg(n.to_string())
        .arg("--logging")
        .arg("off")
        .args(args)
        .output();
    match out {
        Err(e) => format!("SPAWN-ERROR {}", e),
        Ok(o) => {
            if !o.status.success() {
                format!("EXIT {:?} {}", o.status.code(), String::from_utf8_lossy(&o.stderr).lines().last().unwrap_or(""))
            } else {
                String::from_utf8_lossy(&o.stdout).to_string()
            }
        }
    }
}

fn one_line(s: &str) -> String {
    s.replace('\n', " / ")
}

pub fn run(_kind: &str, ctx: &Ctx, out: &mut dyn Write) {
    let bin = match crate::k_c14::build_binary() {
        Ok(b) => b,
        Err(e) => {
            eprintln!("cli: {e}");
            std::process::exit(3);
        }
    };
    let exe = std::env::current_exe().unwrap();
    let scratch = exe.parent().unwrap().parent().unwrap().parent().unwrap().join("scratch");
    std::fs::create_dir_all(&scratch).unwrap();
    let mut rng = Rng::new(ctx.seed ^ 0xC11);
    let srcs = sources(ctx, &mut rng);
    let mut k = 0;
    for src in srcs.iter() {
        let inp = match make_input(format!("cli-{}", k), src, &mut rng) {
            Some(i) => i,
            None => continue,
        };
        k += 1;
        if k % 12 != 0 || inp.n < 2 {
            continue; // a sample of the input space
        }
        let file = scratch.join(format!("cli-{}-{}.nnf", std::process::id(), k));
        std::fs::write(&file, inp.lines.join("\n") + "\n").unwrap();
        let qfile = scratch.join(format!("cli-{}-{}.q", std::process::id(), k));
        let mut s = String::new();
        writeln!(s, "case {} CLI", inp.id).unwrap();
        writeln!(s, "info {}", inp.desc).unwrap();
        writeln!(s, "n {}", inp.n).unwrap();
        let lib = |f: &mut dyn FnMut(&mut ddnnife::Ddnnf) -> String| -> String {
            match load(&inp.lines, Some(inp.n)) {
                Ok(mut d) => guarded(|| f(&mut d)).unwrap_or_else(|e| format!("PANIC {}", e)),
                Err(e) => format!("PANIC load {}", e),
            }
        };
        let mut pair = |name: &str, args: Vec<String>, libans: String| {
            let cli = run_cli(&bin, &file, inp.n, &args);
            writeln!(s, "cmd {} :: {}", name, args.join(" ")).unwrap();
            writeln!(s, "cli {}", one_line(cli.trim_end())).unwrap();
            writeln!(s, "lib {}", one_line(libans.trim_end())).unwrap();
        };
        // count with assumptions of several lengths
        for len in [0usize, 1, 2, 21] {
            let a = random_list(&mut rng, inp.n, len, true);
            let mut args = vec!["count".to_string()];
            args.extend(a.iter().map(|l| l.to_string()));
            let a2 = a.clone();
            pair("count", args, lib(&mut |d| d.execute_query(&a2).to_string()));
        }
        // per-feature table
        pair("count-features", vec!["count-features".into()], lib(&mut |d| {
            d.card_of_each_feature().map(|(v, c, r)| format!("{},{},{:.10e}", v, c, r)).collect::<Vec<_>>().join("\n")
        }));
        // core
        pair("core", vec!["core".into()], lib(&mut |d| {
            let mut c: Vec<i32> = d.get_core().into_iter().collect();
            c.sort_unstable_by_key(|x| x.abs());
            join(&c)
        }));
        // seeded sampling
        let a = random_list(&mut rng, inp.n, 1, true);
        let seed = rng.below(100);
        let satisfiable = lib(&mut |d| d.execute_query(&a).to_string()) != "0";
        if satisfiable {
            let mut args = vec!["urs".to_string(), "-s".into(), seed.to_string(), "-n".into(), "5".into(), "-a".into()];
            args.extend(a.iter().map(|l| l.to_string()));
            let a2 = a.clone();
            pair("urs", args, lib(&mut |d| {
                d.uniform_random_sampling(&a2, 5, seed).map(|l| l.iter().map(|c| join(c)).collect::<Vec<_>>().join("\n")).unwrap_or("none".into())
            }));
        }
        // atomic sets
        pair("atomic-sets", vec!["atomic-sets".into()], lib(&mut |d| {
            d.get_atomic_sets(None, &[], false).iter().map(|c| join(c)).collect::<Vec<_>>().join("\n")
        }));
        // query files: count-queries / sat with several worker counts, stream-queries
        let mut q = String::new();
        let mut qs: Vec<Vec<i32>> = Vec::new();
        for _ in 0..12 {
            let len = *rng.pick(&[0usize, 1, 2, 3, 22]);
            let a = random_list(&mut rng, inp.n, len, true);
            q.push_str(&join(&a));
            q.push('\n');
            qs.push(a);
        }
        std::fs::write(&qfile, &q).unwrap();
        for j in [1u16, 3] {
            let qs2 = qs.clone();
            pair("count-queries", vec!["count-queries".into(), qfile.display().to_string(), "-j".into(), j.to_string()],
                 lib(&mut |d| qs2.iter().map(|a| format!("{},{}", join(a), d.execute_query(a))).collect::<Vec<_>>().join("\n")));
            let qs3 = qs.clone();
            pair("sat", vec!["sat".into(), qfile.display().to_string(), "-j".into(), j.to_string()],
                 lib(&mut |d| qs3.iter().map(|a| format!("{},{}", join(a), d.sat(a))).collect::<Vec<_>>().join("\n")));
        }
        let mut sq = String::new();
        let mut lines: Vec<String> = Vec::new();
        for _ in 0..8 {
            let ln = rng_len(&mut rng);
            let a = random_list(&mut rng, inp.n, ln, true);
            let l = match rng.below(3) {
                0 => format!("count a {}", join(&a)),
                1 => format!("sat a {}", join(&a)),
                _ => format!("core a {}", join(&a)),
            };
            let l = if a.is_empty() { l.split(" a").next().unwrap().to_string() } else { l };
            sq.push_str(&l);
            sq.push('\n');
            lines.push(l);
        }
        std::fs::write(&qfile, &sq).unwrap();
        let lines2 = lines.clone();
        pair("stream-queries", vec!["stream-queries".into(), qfile.display().to_string()],
             lib(&mut |d| lines2.iter().map(|l| d.handle_stream_msg(l)).collect::<Vec<_>>().join("\n")));
        // CNF export (every case, circuits with true nodes / childless operations included: K5 and
        // K10 are repaired by F20)
        pair("to-cnf", vec!["to-cnf".into()], lib(&mut |d| ddnnife_cnf::Cnf::from(&*d).to_string()));
        let _ = std::fs::remove_file(&file);
        let _ = std::fs::remove_file(&qfile);
        writeln!(s, "end").unwrap();
        out.write_all(s.as_bytes()).unwrap();
    }
}

fn rng_len(rng: &mut Rng) -> usize {
    *rng.pick(&[0usize, 1, 2, 3])
}
