//! manual probe for C12 histories (not part of any registered check):
//!   C12_CNF="3;1 2;-1 3" C12_CMDS="clause-update add -3|count|undo-update|count" vharness c12-probe
use crate::common::*;
use std::io::Write;
pub const KINDS: &[&str] = &["c12-probe"];
pub fn run(_kind: &str, _ctx: &Ctx, out: &mut dyn Write) {
    crate::cnfc::register();
    if std::env::var("C12_LOUD").is_ok() {
        let _ = std::panic::take_hook();
    }
    let dir = std::path::Path::new(env!("CARGO_MANIFEST_DIR")).join("../.cache/scratch");
    std::fs::create_dir_all(&dir).unwrap();
    let dir = dir.canonicalize().unwrap();
    let p = dir.join("probe12.cnf");
    let spec = std::env::var("C12_CNF").unwrap_or("3;1 2;-1 3".into());
    let mut parts = spec.split(';');
    let n: u32 = parts.next().unwrap().trim().parse().unwrap();
    let cnf: Vec<Vec<i32>> = parts
        .filter(|s| !s.trim().is_empty())
        .map(|s| s.split_whitespace().map(|x| x.parse().unwrap()).collect())
        .collect();
    crate::cnfc::write_dimacs(&p, &cnf, n);
    let cmds = std::env::var("C12_CMDS").unwrap_or_default();
    let outp = dir.join("probe12.out.cnf");
    let mut d = match guarded(|| ddnnife::Ddnnf::from_file(&p, None)) {
        Ok(d) => d,
        Err(e) => {
            writeln!(out, "LOAD PANIC {}", e).unwrap();
            return;
        }
    };
    writeln!(out, "loaded rc={} n={}", d.rc(), d.number_of_variables).unwrap();
    for line in cmds.split('|').filter(|s| !s.trim().is_empty()) {
        let line = line.replace("$OUT", outp.to_str().unwrap());
        match guarded(|| d.handle_stream_msg(&line)) {
            Ok(r) => writeln!(out, "{} => {:?}", line, r).unwrap(),
            Err(e) => writeln!(out, "{} => PANIC {}", line, e).unwrap(),
        }
        if line.starts_with("save-cnf") {
            writeln!(out, "{}", std::fs::read_to_string(&outp).unwrap_or_default()).unwrap();
        }
    }
    let _ = std::fs::remove_file(&p);
    let _ = std::fs::remove_file(&outp);
}
