//! Shared helpers: loading through the real parser, dumping the flattened node vector,
//! case-block writer.
use ddnnife::parser::distribute_building;
use ddnnife::{Ddnnf, NodeType};
use std::fmt::Write as _;
use std::panic::{catch_unwind, AssertUnwindSafe};

pub struct Ctx {
    pub seed: u64,
    pub tier: String,
    pub count: usize,
}

pub fn quiet_panics() {
    std::panic::set_hook(Box::new(|_| {}));
}

/// run a closure, mapping a panic to Err(message)
pub fn guarded<T>(f: impl FnOnce() -> T) -> Result<T, String> {
    match catch_unwind(AssertUnwindSafe(f)) {
        Ok(v) => Ok(v),
        Err(e) => {
            let msg = if let Some(s) = e.downcast_ref::<&str>() {
                s.to_string()
            } else if let Some(s) = e.downcast_ref::<String>() {
                s.clone()
            } else {
                "panic".to_string()
            };
            Err(msg.replace('\n', " "))
        }
    }
}

pub fn load(lines: &[String], n: Option<u32>) -> Result<Ddnnf, String> {
    let lines = lines.to_vec();
    guarded(move || distribute_building(lines, n, None))
}

pub fn dump_circuit(d: &Ddnnf) -> String {
    let mut s = String::new();
    writeln!(s, "circuit {}", d.nodes.len()).unwrap();
    for node in d.nodes.iter() {
        match &node.ntype {
            NodeType::Literal { literal } => writeln!(s, "L {}", literal).unwrap(),
            NodeType::And { children } => {
                s.push('A');
                for c in children {
                    write!(s, " {}", c).unwrap();
                }
                s.push('\n');
            }
            NodeType::Or { children } => {
                s.push('O');
                for c in children {
                    write!(s, " {}", c).unwrap();
                }
                s.push('\n');
            }
            NodeType::True => s.push_str("T\n"),
            NodeType::False => s.push_str("F\n"),
        }
    }
    s
}

pub fn join<T: ToString>(v: &[T]) -> String {
    v.iter().map(|x| x.to_string()).collect::<Vec<_>>().join(" ")
}

pub fn file_block(kind: &str, lines: &[String]) -> String {
    let mut s = String::new();
    writeln!(s, "file {} {}", kind, lines.len()).unwrap();
    for l in lines {
        writeln!(s, "| {}", l).unwrap();
    }
    s
}

/// Whether the ddnnife this harness is built against keeps the enumeration cursor per loaded
/// model (repair F21 + hook H3b).  Before that the cursor was one process-global map (finding K2).
pub const CURSOR_PER_MODEL: bool = cfg!(has_h3b);

/// Forget the enumeration cursors of THIS model (and of its clones, which share them): only for a
/// long-lived instance that is reused across independent measurements.  A freshly loaded instance
/// has a fresh cursor and needs no reset.  Works on a poisoned cursor lock as well (a panic inside
/// `Ddnnf::enumerate` while the lock is held); the poisoned lock then shows up as PANIC answers
/// of the later enumerations on this instance, which the oracles report.
/// Built against a ddnnife without H3b this falls back to the reset of the process-global map.
pub fn reset_cursor(d: &Ddnnf) {
    #[cfg(has_h3b)]
    d.verif_reset_enumeration_cursor();
    #[cfg(not(has_h3b))]
    {
        let _ = d;
        let _ = guarded(ddnnife::ddnnf::anomalies::config_creation::verif::reset_enumeration_cache);
    }
}

/// The cursor of every assumption key of THIS model (hook H3b; the process-global map before it).
#[cfg(has_h3)]
pub fn cursor_snapshot(d: &Ddnnf) -> Vec<(Vec<i32>, usize)> {
    #[cfg(has_h3b)]
    return d.verif_enumeration_cursor_snapshot();
    #[cfg(not(has_h3b))]
    {
        let _ = d;
        ddnnife::ddnnf::anomalies::config_creation::verif_enumeration_cache_snapshot()
    }
}
