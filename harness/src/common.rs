//! Shared helpers: loading through the real parser, dumping the flattened node vector,
//! case-block writer.
use ddnnife::parser::distribute_building;
use ddnnife::{Ddnnf, NodeType};
use std::fmt::Write as _;
use std::panic::{catch_unwind, AssertUnwindSafe};

pub struct Ctx {
    pub seed: u64,
    pub tier: String,
    pub count: usize,
}

pub fn quiet_panics() {
    std::panic::set_hook(Box::new(|_| {}));
}

/// run a closure, mapping a panic to Err(message)
pub fn guarded<T>(f: impl FnOnce() -> T) -> Result<T, String> {
    match catch_unwind(AssertUnwindSafe(f)) {
        Ok(v) => Ok(v),
        Err(e) => {
            let msg = if let Some(s) = e.downcast_ref::<&str>() {
                s.to_string()
            } else if let Some(s) = e.downcast_ref::<String>() {
                s.clone()
            } else {
                "panic".to_string()
            };
            Err(msg.replace('\n', " "))
        }
    }
}

pub fn load(lines: &[String], n: Option<u32>) -> Result<Ddnnf, String> {
    let lines = lines.to_vec();
    guarded(move || distribute_building(lines, n, None))
}

pub fn dump_circuit(d: &Ddnnf) -> String {
    let mut s = String::new();
    writeln!(s, "circuit {}", d.nodes.len()).unwrap();
    for node in d.nodes.iter() {
        match &node.ntype {
            NodeType::Literal { literal } => writeln!(s, "L {}", literal).unwrap(),
            NodeType::And { children } => {
                s.push('A');
                for c in children {
                    write!(s, " {}", c).unwrap();
                }
                s.push('\n');
            }
            NodeType::Or { children } => {
                s.push('O');
                for c in children {
                    write!(s, " {}", c).unwrap();
                }
                s.push('\n');
            }
            NodeType::True => s.push_str("T\n"),
            NodeType::False => s.push_str("F\n"),
        }
    }
    s
}

pub fn join<T: ToString>(v: &[T]) -> String {
    v.iter().map(|x| x.to_string()).collect::<Vec<_>>().join(" ")
}

pub fn file_block(kind: &str, lines: &[String]) -> String {
    let mut s = String::new();
    writeln!(s, "file {} {}", kind, lines.len()).unwrap();
    for l in lines {
        writeln!(s, "| {}", l).unwrap();
    }
    s
}

/// Forget all enumeration cursors.  A panic inside `Ddnnf::enumerate` while the cursor lock is held
/// poisons the process-global mutex; the reset must not take the harness down with it (the
/// poisoned lock shows up as PANIC answers of every later enumeration, which the oracles report).
pub fn reset_cursor() {
    let _ = guarded(ddnnife::ddnnf::anomalies::config_creation::verif::reset_enumeration_cache);
}
