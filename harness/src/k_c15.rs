//! C15: parallel query-file evaluation.  In-process: `Ddnnf::operate_on_queries` with
//! max_worker = 1 and with j workers into Vec<u8> writers, for the two operations the CLI uses
//! (count-queries = Ddnnf::execute_query, sat = Ddnnf::sat), under seeded delays in the worker
//! closure (hook H4b, env VERIF_DELAY_SEED / VERIF_DELAY_MAX_US), CPU contention (spinning
//! threads) and repetition.  The event log of hook H4b (VERIF_EVENT_LOG) goes into the case block.
//! Without the hook the runs still happen (no delays, no events); the checker then skips the trace
//! validation.
//!
//! block:
//!   case <id> C15 / info .. / n <features> / op count|sat / [circuit ..]
//!   file queries k        the query file, split at "\n" (escaped pieces; join with "\n" = the bytes)
//!   impl parsed ok <n> | impl parsed panic <msg>     + file parsed n  ("<index> <lits..>")
//!   impl single ok <len> <fnv> | impl single panic <msg>   + file single k (pieces)
//!   run <r> <j> <delay_seed> <max_us> <spinners> ok <len> <fnv> <nevents> | run .. panic|hang <msg>
//!   file multi-<r> k      (only when the bytes differ from the single-thread bytes)
//!   file events-<r> k     (hook H4b lines: begin j n / pull w i / send w i / recv i / end)
//!   planted-panic <lit>   last cases: query files with the one-literal query -2147483648, on which the
//!                         operations panic in a build with overflow checks (negate overflow, a finding
//!                         of C13), evaluated with j = 1, 2, 3, 4, 32 under a 3 s watchdog.  Before
//!                         repair F10 (repo_patches/F10-multiquery-drop-sender.patch) the runs with
//!                         j > 1 never returned (`hang`); now they panic like j = 1.
use crate::common::*;
use crate::gen::*;
use crate::rng::Rng;
use ddnnife::Ddnnf;
use std::fmt::Write as _;
use std::io::Write;
use std::path::{Path, PathBuf};
use std::sync::atomic::{AtomicBool, Ordering};
use std::sync::{mpsc, Arc};
use std::time::Duration;

pub const KINDS: &[&str] = &["c15"];

fn repo() -> String {
    std::env::var("VERIF_REPO").unwrap_or_else(|_| "/repo".to_string())
}

pub fn fnv64(b: &[u8]) -> u64 {
    let mut h: u64 = 0xcbf2_9ce4_8422_2325;
    for &c in b {
        h ^= c as u64;
        h = h.wrapping_mul(0x0000_0100_0000_01b3);
    }
    h
}

fn escape(piece: &[u8]) -> String {
    let mut s = String::new();
    for &c in piece {
        match c {
            b'\\' => s.push_str("\\\\"),
            b'\r' => s.push_str("\\r"),
            b'\t' => s.push_str("\\t"),
            0x20..=0x7e => s.push(c as char),
            _ => write!(s, "\\x{:02x}", c).unwrap(),
        }
    }
    s
}

/// a byte string as `file <name> k` + k escaped pieces (split at "\n")
fn bytes_block(name: &str, bytes: &[u8]) -> String {
    let pieces: Vec<&[u8]> = bytes.split(|&c| c == b'\n').collect();
    let mut s = String::new();
    writeln!(s, "file {} {}", name, pieces.len()).unwrap();
    for p in pieces {
        writeln!(s, "| {}", escape(p)).unwrap();
    }
    s
}

struct Model {
    name: String,
    n: u32,
    ddnnf: Ddnnf,
    dump: bool,
}

fn file_model(file: &str, n: u32, dump: bool) -> Option<Model> {
    let p = format!("{}/ddnnife/tests/data/{}", repo(), file);
    let ddnnf = guarded(|| ddnnife::parser::build_ddnnf(Path::new(&p), Some(n))).ok()?;
    Some(Model { name: file.to_string(), n, ddnnf, dump })
}

fn generated_model(rng: &mut Rng, k: usize) -> Option<Model> {
    for _ in 0..20 {
        let n = 3 + rng.below(10) as u32;
        let m = rng.below(2 * n as u64 + 1) as usize;
        let maxw = 1 + rng.below(4) as usize;
        let src = crate::k_c01::Source {
            cnf: random_cnf(rng, n, m, maxw),
            n: n + rng.below(3) as u32,
            desc: format!("random n={} m={} w<={}", n, m, maxw),
        };
        if let Some(inp) = crate::k_c01::make_input(format!("g{}", k), &src, rng) {
            if let Ok(d) = load(&inp.lines, Some(inp.n)) {
                return Some(Model { name: format!("gen[{} {}]", inp.format, src.desc), n: inp.n, ddnnf: d, dump: true });
            }
        }
    }
    None
}

fn lit(rng: &mut Rng, n: u32) -> i32 {
    let v = 1 + rng.below(n as u64) as i32;
    if rng.coin() { v } else { -v }
}

/// one query as text: literals in range, written the way a user may write them
fn query_text(rng: &mut Rng, n: u32, len: usize, plain: bool) -> String {
    let mut lits: Vec<i32> = Vec::new();
    if (len as u32) <= n && rng.chance(3, 4) {
        // distinct features
        let mut fs: Vec<u32> = (1..=n).collect();
        rng.shuffle(&mut fs);
        for f in fs.into_iter().take(len) {
            lits.push(if rng.coin() { f as i32 } else { -(f as i32) });
        }
    } else {
        for _ in 0..len {
            lits.push(lit(rng, n));
        }
    }
    let mut s = String::new();
    if !plain && rng.chance(1, 6) {
        s.push_str(if rng.coin() { " " } else { "\t" });
    }
    for (k, l) in lits.iter().enumerate() {
        if k > 0 {
            s.push_str(if plain || rng.chance(9, 10) { " " } else { "  \t" });
        }
        if !plain && *l > 0 && rng.chance(1, 12) {
            write!(s, "+{}", l).unwrap();
        } else if !plain && rng.chance(1, 15) {
            if *l < 0 { write!(s, "-00{}", -l).unwrap() } else { write!(s, "0{}", l).unwrap() }
        } else {
            write!(s, "{}", l).unwrap();
        }
    }
    if !plain && rng.chance(1, 8) {
        s.push(' ');
    }
    s
}

/// the query file: mix of short and 30-literal queries, duplicates, empty and blank lines
fn query_file(rng: &mut Rng, n: u32, lines: usize, bad: bool) -> (Vec<u8>, String) {
    let plain = rng.chance(1, 3);
    let crlf = !plain && rng.chance(1, 5);
    let p_empty = *rng.pick(&[0u64, 5, 15, 40]);
    let p_dup = *rng.pick(&[0u64, 10, 30]);
    let p_long = *rng.pick(&[5u64, 20, 50]);
    let mut v: Vec<String> = Vec::new();
    for _ in 0..lines {
        let r = rng.below(100);
        if r < p_empty {
            v.push(if plain || rng.chance(2, 3) { String::new() } else { (*rng.pick(&[" ", "\t", "  "])).to_string() });
        } else if r < p_empty + p_dup && !v.is_empty() {
            let k = rng.below(v.len() as u64) as usize;
            v.push(v[k].clone());
        } else if rng.below(100) < p_long {
            let len = if rng.chance(3, 4) { 30 } else { 21 + rng.below(20) as usize };
            v.push(query_text(rng, n, len, plain));
        } else {
            let cap = if rng.chance(3, 4) { 3 } else { 20 };
            let len = 1 + rng.below(cap) as usize;
            v.push(query_text(rng, n, len, plain));
        }
    }
    if bad && !v.is_empty() {
        let k = rng.below(v.len() as u64) as usize;
        v[k] = (*rng.pick(&["1 x", "2147483648", "-2147483649", "1.5", "-", "+", "3 - 4", "1,2", "0x10"])).to_string();
    }
    let nl = if crlf { "\r\n" } else { "\n" };
    let mut content = v.join(nl);
    let trailing = !v.is_empty() && rng.chance(3, 4);
    if trailing {
        content.push_str(nl);
    }
    let desc = format!(
        "lines={} plain={} crlf={} trailing_nl={} p_empty={} p_dup={} p_long={} bad={}",
        lines, plain as u8, crlf as u8, trailing as u8, p_empty, p_dup, p_long, bad as u8
    );
    (content.into_bytes(), desc)
}

#[derive(Clone, Copy, PartialEq)]
enum Op {
    Count,
    Sat,
}

enum Outcome {
    Ok(Vec<u8>),
    Panic(String),
    Hang,
}

/// runs operate_on_queries on a clone of the model in a thread of its own (watchdog: before repair
/// F10 a worker that died left the main thread blocked in recv for ever)
fn evaluate(model: &Ddnnf, op: Op, j: u16, path: &Path, timeout: Duration) -> Outcome {
    let mut d = model.clone();
    d.max_worker = j;
    let path: PathBuf = path.to_path_buf();
    let (tx, rx) = mpsc::channel();
    std::thread::spawn(move || {
        let r = guarded(move || {
            let mut out: Vec<u8> = Vec::new();
            let res = match op {
                Op::Count => d.operate_on_queries(Ddnnf::execute_query, &path, &mut out),
                Op::Sat => d.operate_on_queries(Ddnnf::sat, &path, &mut out),
            };
            (out, res.map_err(|e| e.to_string()))
        });
        let _ = tx.send(r);
    });
    match rx.recv_timeout(timeout) {
        Ok(Ok((out, Ok(())))) => Outcome::Ok(out),
        Ok(Ok((_, Err(e)))) => Outcome::Panic(format!("returned Err: {}", e)),
        Ok(Err(msg)) => Outcome::Panic(msg),
        Err(_) => Outcome::Hang,
    }
}

struct Spinners {
    stop: Arc<AtomicBool>,
    handles: Vec<std::thread::JoinHandle<u64>>,
}

fn spin(k: usize) -> Spinners {
    let stop = Arc::new(AtomicBool::new(false));
    let handles = (0..k)
        .map(|t| {
            let stop = stop.clone();
            std::thread::spawn(move || {
                let mut x = t as u64 + 1;
                while !stop.load(Ordering::Relaxed) {
                    for _ in 0..1000 {
                        x = x.wrapping_mul(6364136223846793005).wrapping_add(1442695040888963407);
                    }
                    std::hint::black_box(x);
                }
                x
            })
        })
        .collect();
    Spinners { stop, handles }
}

impl Spinners {
    fn stop(self) {
        self.stop.store(true, Ordering::Relaxed);
        for h in self.handles {
            let _ = h.join();
        }
    }
}

fn short(msg: &str) -> String {
    let m: String = msg.chars().filter(|c| !c.is_control()).take(160).collect();
    m
}

pub fn run(_kind: &str, ctx: &Ctx, out: &mut dyn Write) {
    let mut rng = Rng::new(ctx.seed ^ 0xC15);
    let thorough = ctx.tier == "thorough";
    let max_lines: usize = if thorough { 5000 } else { 500 };
    let tmp = std::env::temp_dir().join(format!("vharness-c15-{}", std::process::id()));
    std::fs::create_dir_all(&tmp).unwrap();
    let qpath = tmp.join("queries.txt");
    let epath = tmp.join("events.log");

    let vp9 = file_model("VP9_d4.nnf", 42, true);
    let auto1 = file_model("auto1_d4.nnf", 2513, false);
    let mut hung = false;

    for k in 0..ctx.count {
        // ---- the model
        let generated;
        let model: &Model = match k % 8 {
            3 | 6 => match generated_model(&mut rng, k) {
                Some(m) => { generated = m; &generated }
                None => continue,
            },
            5 | 7 if auto1.is_some() => auto1.as_ref().unwrap(),
            _ => match vp9.as_ref() { Some(m) => m, None => continue },
        };
        let big = model.n > 1000;
        // ---- the query file
        let lines = match k {
            0 => 0,
            1 => 1,
            2 => 2,
            3 => 3,
            4 => max_lines,
            _ => {
                let cap = if big { max_lines / 4 } else { max_lines };
                match rng.below(4) {
                    0 => rng.below(12) as usize,
                    1 => rng.below(100.min(cap as u64) + 1) as usize,
                    _ => rng.below(cap as u64 + 1) as usize,
                }
            }
        };
        let bad = k % 16 == 9;
        let (content, fdesc) = query_file(&mut rng, model.n, lines, bad);
        // k = 7: the "overtaking" file: a few expensive queries (>20 literals: full recomputation of a
        // 15 000-node model) among more than a thousand free ones (empty lines answer the cached
        // count), so that a result is overtaken by far more than 1024 later results
        let (content, fdesc) = if k == 7 && big {
            let mut text = String::new();
            let total = 2600;
            for i in 0..total {
                if i == 5 || i == 1300 || i == 2300 {
                    let mut q: Vec<i32> = Vec::new();
                    while q.len() < 25 {
                        let l = lit(&mut rng, model.n);
                        if !q.contains(&l) && !q.contains(&-l) {
                            q.push(l);
                        }
                    }
                    text.push_str(&join(&q));
                } else if i % 3 == 0 {
                    text.push_str("1");
                }
                text.push('\n');
            }
            (text.into_bytes(), format!("overtaking file: {} lines, 3 expensive queries among free ones", total))
        } else {
            (content, fdesc)
        };
        std::fs::write(&qpath, &content).unwrap();

        for op in [Op::Count, Op::Sat] {
            let opname = if op == Op::Count { "count" } else { "sat" };
            let mut s = String::new();
            writeln!(s, "case c15-{}-{} C15", k, opname).unwrap();
            writeln!(s, "info model={} {}", model.name, fdesc).unwrap();
            writeln!(s, "n {}", model.n).unwrap();
            writeln!(s, "op {}", opname).unwrap();
            if model.dump {
                s.push_str(&dump_circuit(&model.ddnnf));
            }
            s.push_str(&bytes_block("queries", &content));
            // what the implementation's parser makes of the file
            std::env::remove_var("VERIF_DELAY_SEED");
            std::env::remove_var("VERIF_DELAY_AT");
            std::env::remove_var("VERIF_DELAY_MAX_US");
            std::env::remove_var("VERIF_EVENT_LOG");
            match guarded(|| ddnnife::parser::parse_queries_file(&qpath)) {
                Ok(items) => {
                    writeln!(s, "impl parsed ok {}", items.len()).unwrap();
                    writeln!(s, "file parsed {}", items.len()).unwrap();
                    for (i, q) in items.iter() {
                        writeln!(s, "| {} {}", i, join(q)).unwrap();
                    }
                }
                Err(e) => writeln!(s, "impl parsed panic {}", short(&e)).unwrap(),
            }
            // single-thread reference
            let timeout = Duration::from_secs(if thorough { 900 } else { 240 });
            let single = evaluate(&model.ddnnf, op, 1, &qpath, timeout);
            let single_bytes: Option<Vec<u8>> = match &single {
                Outcome::Ok(b) => {
                    writeln!(s, "impl single ok {} {:016x}", b.len(), fnv64(b)).unwrap();
                    s.push_str(&bytes_block("single", b));
                    Some(b.clone())
                }
                Outcome::Panic(m) => { writeln!(s, "impl single panic {}", short(m)).unwrap(); None }
                Outcome::Hang => { writeln!(s, "impl single hang").unwrap(); hung = true; None }
            };
            // an operation that panics on a parsed query (none is known but the planted one below) is
            // reported from the single-thread run alone: only files that fail in the parser are run
            // multi-threaded in that case
            let parse_failed = guarded(|| ddnnife::parser::parse_queries_file(&qpath)).is_err();
            if single_bytes.is_some() || parse_failed {
                // ---- the multi-thread runs
                let mut js: Vec<u16> = vec![1, 2, 3, 4, 8, 16, 32];
                if thorough {
                    for _ in 0..3 { js.push(2 + rng.below(31) as u16); }
                }
                let reps = if lines <= 100 { 3 } else if lines <= 1000 { 2 } else { 1 };
                let mut r = 0;
                for &j in js.iter() {
                    for rep in 0..(if j == 1 { 1 } else { reps }) {
                        let dseed = rng.next() % 1_000_000;
                        // keep the injected sleeping time of a run below ~1.5 s
                        let budget_us = 1_500_000u64 * j.min(16) as u64 / (lines.max(1) as u64);
                        let max_us = match (rep + j as usize) % 4 {
                            0 => 0,
                            1 => 50.min(budget_us),
                            2 => 300.min(budget_us),
                            _ => 2000.min(budget_us),
                        };
                        let spinners = *rng.pick(&[0usize, 0, 8, 16, 32]);
                        let _ = std::fs::remove_file(&epath);
                        if max_us > 0 {
                            std::env::set_var("VERIF_DELAY_SEED", dseed.to_string());
                            std::env::set_var("VERIF_DELAY_MAX_US", max_us.to_string());
                        } else {
                            std::env::remove_var("VERIF_DELAY_SEED");
                            std::env::remove_var("VERIF_DELAY_MAX_US");
                        }
                        // the overtaking file: hold the result of the first expensive query back
                        // (hook H4c) so that it is overtaken by far more than a thousand later
                        // results whatever the machine load is
                        if k == 7 && big && j >= 2 && rep == 0 {
                            std::env::set_var("VERIF_DELAY_AT", "5:400000");
                        } else {
                            std::env::remove_var("VERIF_DELAY_AT");
                        }
                        std::env::set_var("VERIF_EVENT_LOG", &epath);
                        let sp = spin(spinners);
                        let res = evaluate(&model.ddnnf, op, j, &qpath, timeout);
                        sp.stop();
                        let events: Vec<String> = std::fs::read_to_string(&epath)
                            .map(|t| t.lines().map(|l| l.to_string()).collect())
                            .unwrap_or_default();
                        match res {
                            Outcome::Ok(b) => {
                                writeln!(s, "run {} {} {} {} {} ok {} {:016x} {}", r, j, dseed, max_us, spinners,
                                         b.len(), fnv64(&b), events.len()).unwrap();
                                if Some(&b) != single_bytes.as_ref() {
                                    s.push_str(&bytes_block(&format!("multi-{}", r), &b));
                                }
                            }
                            Outcome::Panic(m) => writeln!(s, "run {} {} {} {} {} panic {}", r, j, dseed, max_us, spinners, short(&m)).unwrap(),
                            Outcome::Hang => { writeln!(s, "run {} {} {} {} {} hang", r, j, dseed, max_us, spinners).unwrap(); hung = true; }
                        }
                        if !events.is_empty() {
                            s.push_str(&file_block(&format!("events-{}", r), &events));
                        }
                        r += 1;
                        if hung { break; }
                    }
                    if hung { break; }
                }
            }
            writeln!(s, "end").unwrap();
            out.write_all(s.as_bytes()).unwrap();
            if hung { break; }
        }
        if hung { break; }
    }
    std::env::remove_var("VERIF_DELAY_SEED");
    std::env::remove_var("VERIF_DELAY_AT");
    std::env::remove_var("VERIF_DELAY_MAX_US");
    std::env::remove_var("VERIF_EVENT_LOG");
    // ---- planted: an operation that panics on one query of the file (first: the file of finding K13)
    if !hung {
        if let Some(model) = vp9.as_ref() {
            let files: [(&str, &[u8]); 6] = [
                ("minimal", b"1\n-2147483648\n2"),
                ("middle", b"1\n2 3\n-2147483648\n4\n5 -6\n"),
                ("only", b"-2147483648\n"),
                ("first", b"-2147483648\n1\n2 3\n\n4\n"),
                ("last", b"1\n2 3\n\n4\n-2147483648"),
                ("twice", b"-2147483648\n1\n2\n3\n-2147483648\n4\n5\n6\n"),
            ];
            'planted: for (fname, content) in files.iter() {
                std::fs::write(&qpath, content).unwrap();
                for op in [Op::Count, Op::Sat] {
                    let opname = if op == Op::Count { "count" } else { "sat" };
                    let mut s = String::new();
                    writeln!(s, "case c15-planted-{}-{} C15", fname, opname).unwrap();
                    writeln!(s, "info model={} a query on which the operation panics when overflow checks are on", model.name).unwrap();
                    writeln!(s, "n {}", model.n).unwrap();
                    writeln!(s, "op {}", opname).unwrap();
                    writeln!(s, "planted-panic -2147483648").unwrap();
                    s.push_str(&dump_circuit(&model.ddnnf));
                    s.push_str(&bytes_block("queries", content));
                    if let Ok(items) = guarded(|| ddnnife::parser::parse_queries_file(&qpath)) {
                        writeln!(s, "impl parsed ok {}", items.len()).unwrap();
                        writeln!(s, "file parsed {}", items.len()).unwrap();
                        for (i, q) in items.iter() {
                            writeln!(s, "| {} {}", i, join(q)).unwrap();
                        }
                    }
                    let wd = Duration::from_secs(3);
                    let single = evaluate(&model.ddnnf, op, 1, &qpath, wd);
                    let single_bytes = match &single {
                        Outcome::Ok(b) => {
                            writeln!(s, "impl single ok {} {:016x}", b.len(), fnv64(b)).unwrap();
                            s.push_str(&bytes_block("single", b));
                            Some(b.clone())
                        }
                        Outcome::Panic(m) => { writeln!(s, "impl single panic {}", short(m)).unwrap(); None }
                        Outcome::Hang => { writeln!(s, "impl single hang").unwrap(); None }
                    };
                    for (r, j) in [1u16, 2, 3, 4, 32].iter().enumerate() {
                        match evaluate(&model.ddnnf, op, *j, &qpath, wd) {
                            Outcome::Ok(b) => {
                                writeln!(s, "run {} {} 0 0 0 ok {} {:016x} 0", r, j, b.len(), fnv64(&b)).unwrap();
                                if Some(&b) != single_bytes.as_ref() {
                                    s.push_str(&bytes_block(&format!("multi-{}", r), &b));
                                }
                            }
                            Outcome::Panic(m) => writeln!(s, "run {} {} 0 0 0 panic {}", r, j, short(&m)).unwrap(),
                            Outcome::Hang => {
                                // the blocked threads stay behind: one hanging run per case is enough
                                writeln!(s, "run {} {} 0 0 0 hang", r, j).unwrap();
                                hung = true;
                                break;
                            }
                        }
                    }
                    writeln!(s, "end").unwrap();
                    out.write_all(s.as_bytes()).unwrap();
                }
                if hung {
                    // a build that blocks on the first file blocks on the others, too
                    break 'planted;
                }
            }
        }
    }
    let _ = std::fs::remove_dir_all(&tmp);
    // threads blocked in a hung evaluation cannot be joined
    out.flush().unwrap();
    std::process::exit(0);
}
