//! C19: CNF export (`ddnnife_cnf::Cnf::from(&Ddnnf)`, what CLI `to-cnf` prints).
//! For every input of the C01 input space with at least two features: load through the real
//! parser, dump the node vector, run the Tseitin transformation under catch_unwind and record the
//! clause list, `num_variables`, and the Display text (header line + clause lines).
use crate::common::*;
use crate::k_c01::{make_input, sources, write_models};
use crate::rng::Rng;
use ddnnife_cnf::Cnf;
use std::fmt::Write as _;
use std::io::Write;

pub const KINDS: &[&str] = &["c19"];

pub fn run(_kind: &str, ctx: &Ctx, out: &mut dyn Write) {
    let mut rng = Rng::new(ctx.seed);
    let srcs = sources(ctx, &mut rng);
    let mut k = 0;
    for src in srcs.iter() {
        let inp = match make_input(format!("c19-{}", k), src, &mut rng) {
            Some(i) => i,
            None => continue,
        };
        if inp.n < 2 {
            continue;
        }
        k += 1;
        let mut s = String::new();
        writeln!(s, "case {} C19", inp.id).unwrap();
        writeln!(s, "info {}", inp.desc).unwrap();
        writeln!(s, "n {}", inp.n).unwrap();
        write_models(&mut s, &inp);
        s.push_str(&file_block(inp.format, &inp.lines));
        match load(&inp.lines, Some(inp.n)) {
            Err(e) => writeln!(s, "impl loadpanic {}", e).unwrap(),
            Ok(d) => {
                s.push_str(&dump_circuit(&d));
                writeln!(s, "impl nvars {}", d.number_of_variables).unwrap();
                writeln!(s, "impl rc {}", d.rc()).unwrap();
                // exactly what ddnnife_bin's `to-cnf` does: Cnf::from(&ddnnf).to_string()
                match guarded(|| {
                    let cnf = Cnf::from(&d);
                    let text = cnf.to_string();
                    (cnf, text)
                }) {
                    Err(e) => writeln!(s, "impl panic {}", e).unwrap(),
                    Ok((cnf, text)) => {
                        writeln!(s, "impl header {} {}", cnf.num_variables, cnf.clauses.len()).unwrap();
                        for c in cnf.clauses.iter() {
                            writeln!(s, "impl clause {}", join(c)).unwrap();
                        }
                        let tl: Vec<String> = text.split('\n').map(|l| l.to_string()).collect();
                        writeln!(s, "impl headerline {}", tl.first().cloned().unwrap_or_default()).unwrap();
                        s.push_str(&file_block("cnftext", &tl));
                    }
                }
            }
        }
        writeln!(s, "end").unwrap();
        out.write_all(s.as_bytes()).unwrap();
    }
}
