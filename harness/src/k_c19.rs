//! C19: CNF export (`ddnnife_cnf::Cnf::from(&Ddnnf)`, what CLI `to-cnf` prints).
//! For every input of the C01 input space with at least two features: load through the real
//! parser, dump the node vector, run the Tseitin transformation under catch_unwind and record the
//! clause list, `num_variables`, and the Display text (header line + clause lines).
use crate::common::*;
use crate::k_c01::{make_input_class, sources, write_models, Input};
use crate::rng::Rng;
use ddnnife_cnf::Cnf;
use std::fmt::Write as _;
use std::io::Write;

pub const KINDS: &[&str] = &["c19"];

/// hand-written members of the input space that must be exercised by every run: the minimal
/// reproductions of the repaired findings (K5: c2d true node; K10: d4 or node with only false
/// children, d4 and node with only `t` children; repair F20: ordinary compared cases), further
/// shapes with constants (two true nodes under different parents share one variable, a c2d
/// false node below an and, a true node below a single-child and, constants whose variable is
/// allocated first / in the middle) and the shapes the property names (single-child nodes,
/// shared operations).
fn fixed_inputs() -> Vec<Input> {
    let mk = |id: &str, n: u32, format: &'static str, text: &str, models: Vec<u32>| Input {
        id: format!("c19-fixed-{}", id),
        n,
        format,
        lines: text.split('/').map(|l| l.trim().to_string()).collect(),
        desc: format!("fixed {}", id),
        models: Some(models),
    };
    vec![
        mk("true-node", 2, "c2d", "nnf 4 3 2/A 0/L 1/L 2/A 3 0 1 2", vec![3]),
        mk("false-children", 2, "d4", "o 1 0/o 2 0/f 3 0/t 4 0/1 2 1 0/1 4 -1 2 0/2 3 2 0", vec![2]),
        // an and node whose only children are `t` (childless and after loading)
        mk("true-children", 2, "d4", "o 1 0/a 2 0/t 3 0/1 2 1 0/1 3 -1 2 0/2 3 0/2 3 0", vec![1, 2, 3]),
        // two true nodes (A 0 twice) under two different and nodes: the cache gives both the same variable
        mk("two-true-nodes", 3, "c2d", "nnf 11 10 3/A 0/L 1/L 2/A 3 0 1 2/A 0/L -1/L -2/A 3 4 5 6/O 1 2 3 7/L 3/A 2 8 9", vec![4, 7]),
        // a c2d false node (O 0 0) kept below an and: a dead branch (K7's file)
        mk("false-node", 2, "c2d", "nnf 7 7 2/L 1/O 0 0/L 2/A 3 0 1 2/L -1/A 2 4 2/O 1 2 3 5", vec![2]),
        // a true node below a single-child and (the and node takes the constant's variable)
        mk("true-single-child", 2, "c2d", "nnf 5 4 2/A 0/A 1 0/L 1/L 2/A 3 1 2 3", vec![3]),
        // true and false below one or node (both without features: smooth), the or below the root and
        mk("true-false-or", 2, "c2d", "nnf 6 5 2/O 0 0/A 0/O 0 2 0 1/L 1/L -2/A 3 2 3 4", vec![1]),
        mk("single-child", 3, "d4", "o 1 0/t 2 0/1 2 1 0", vec![1, 3, 5, 7]),
        mk("iff", 2, "c2d", "nnf 7 6 2/L 1/L -1/L 2/L -2/A 2 0 2/A 2 1 3/O 1 2 4 5", vec![0, 3]),
    ]
}

/// A separate class: a d4 file whose root decides a NEW feature y = n + 1; the branch y leads to
/// an or node all of whose edges (one or two) go to `f`, the branch -y to the old root.  The
/// loader removes the false children and keeps the or node without children (finding K10 before
/// the repair F20).  The function is (-y and old), i.e. the same model bit masks over n + 1 features.
/// The false edges are labelled with a feature x the old function DEPENDS on (so x is mentioned
/// in the live part too; a feature mentioned only on edges into `f` is outside the d4 input
/// space: the loader neither keeps nor re-adds it), or are unlabelled when there is none.
fn dead_or_wrap(inp: &Input, rng: &mut Rng) -> Input {
    let y = inp.n as i64 + 1;
    let ms: std::collections::HashSet<u32> = inp.models.as_ref().map(|m| m.iter().copied().collect()).unwrap_or_default();
    let dependent: Vec<i64> = (1..=inp.n)
        .filter(|v| ms.iter().any(|m| !ms.contains(&(m ^ (1u32 << (v - 1))))))
        .map(|v| v as i64)
        .collect();
    let two = rng.coin();
    let mut out = vec!["o 1 0".to_string(), "o 2 0".to_string(), "f 3 0".to_string()];
    let mut edges = vec![format!("1 2 {} 0", y), format!("1 4 {} 0", -y)];
    if dependent.is_empty() || rng.chance(1, 4) {
        edges.push("2 3 0".to_string());
        if two {
            edges.push("2 3 0".to_string());
        }
    } else {
        let x = *rng.pick(&dependent);
        edges.push(format!("2 3 {} 0", x));
        if two {
            edges.push(format!("2 3 {} 0", -x));
        }
    }
    let mut first_decl: Option<i64> = None;
    for l in inp.lines.iter() {
        let t: Vec<&str> = l.split_whitespace().collect();
        if t.is_empty() {
            continue;
        }
        if t[0].parse::<i64>().is_ok() {
            let from: i64 = t[0].parse().unwrap();
            let to: i64 = t[1].parse().unwrap();
            edges.push(format!("{} {} {}", from + 3, to + 3, t[2..].join(" ")));
        } else {
            let id: i64 = t[1].parse().unwrap();
            if first_decl.is_none() {
                first_decl = Some(id);
            }
            out.push(format!("{} {} 0", t[0], id + 3));
        }
    }
    assert_eq!(first_decl, Some(1), "d4 generator: the root is node 1");
    out.extend(edges);
    Input {
        id: inp.id.clone(),
        n: inp.n + 1,
        format: "d4",
        lines: out,
        desc: format!("{} | d4 dead or node ({} false edge{}) below a new root deciding {}", inp.desc, if two { 2 } else { 1 }, if two { "s" } else { "" }, y),
        models: inp.models.clone(),
    }
}

pub fn run(_kind: &str, ctx: &Ctx, out: &mut dyn Write) {
    let mut rng = Rng::new(ctx.seed);
    let srcs = sources(ctx, &mut rng);
    let mut k = 0;
    let mut inputs: Vec<Input> = fixed_inputs();
    for src in srcs.iter() {
        // a separate class (one case in six): c2d files that keep their false nodes (`O 0 0`, dead
        // branches stay in the file and in the loaded vector; since F20 a false node is the
        // empty disjunction with a variable of its own)
        let c2d_false = rng.chance(1, 6);
        if let Some(i) = make_input_class(format!("c19-{}", k), src, &mut rng, c2d_false) {
            if i.n >= 2 {
                k += 1;
                // one d4 case in ten gets a dead or node on top (see dead_or_wrap)
                let i = if i.format == "d4" && i.n < 16 && rng.chance(1, 10) { dead_or_wrap(&i, &mut rng) } else { i };
                inputs.push(i);
            }
        }
    }
    for inp in inputs.into_iter() {
        let mut s = String::new();
        writeln!(s, "case {} C19", inp.id).unwrap();
        writeln!(s, "info {}", inp.desc).unwrap();
        writeln!(s, "n {}", inp.n).unwrap();
        write_models(&mut s, &inp);
        s.push_str(&file_block(inp.format, &inp.lines));
        match load(&inp.lines, Some(inp.n)) {
            Err(e) => writeln!(s, "impl loadpanic {}", e).unwrap(),
            Ok(d) => {
                s.push_str(&dump_circuit(&d));
                writeln!(s, "impl nvars {}", d.number_of_variables).unwrap();
                writeln!(s, "impl rc {}", d.rc()).unwrap();
                // exactly what ddnnife_bin's `to-cnf` does: Cnf::from(&ddnnf).to_string()
                match guarded(|| {
                    let cnf = Cnf::from(&d);
                    let text = cnf.to_string();
                    (cnf, text)
                }) {
                    Err(e) => writeln!(s, "impl panic {}", e).unwrap(),
                    Ok((cnf, text)) => {
                        writeln!(s, "impl header {} {}", cnf.num_variables, cnf.clauses.len()).unwrap();
                        for c in cnf.clauses.iter() {
                            writeln!(s, "impl clause {}", join(c)).unwrap();
                        }
                        let tl: Vec<String> = text.split('\n').map(|l| l.to_string()).collect();
                        writeln!(s, "impl headerline {}", tl.first().cloned().unwrap_or_default()).unwrap();
                        s.push_str(&file_block("cnftext", &tl));
                    }
                }
            }
        }
        writeln!(s, "end").unwrap();
        out.write_all(s.as_bytes()).unwrap();
    }
}
