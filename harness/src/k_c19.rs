//! C19: CNF export (`ddnnife_cnf::Cnf::from(&Ddnnf)`, what CLI `to-cnf` prints).
//! For every input of the C01 input space with at least two features: load through the real
//! parser, dump the node vector, run the Tseitin transformation under catch_unwind and record the
//! clause list, `num_variables`, and the Display text (header line + clause lines).
use crate::common::*;
use crate::k_c01::{make_input, sources, write_models, Input};
use crate::rng::Rng;
use ddnnife_cnf::Cnf;
use std::fmt::Write as _;
use std::io::Write;

pub const KINDS: &[&str] = &["c19"];

/// hand-written members of the input space that must be exercised by every run: the minimal
/// reproductions of the recorded findings (K5: c2d true node; K10: d4 or node with only false
/// children) and of the shapes the property names (single-child nodes, shared operations).
fn fixed_inputs() -> Vec<Input> {
    let mk = |id: &str, n: u32, format: &'static str, text: &str, models: Vec<u32>| Input {
        id: format!("c19-fixed-{}", id),
        n,
        format,
        lines: text.split('/').map(|l| l.trim().to_string()).collect(),
        desc: format!("fixed {}", id),
        models: Some(models),
    };
    vec![
        mk("true-node", 2, "c2d", "nnf 4 3 2/A 0/L 1/L 2/A 3 0 1 2", vec![3]),
        mk("false-children", 2, "d4", "o 1 0/o 2 0/f 3 0/t 4 0/1 2 1 0/1 4 -1 2 0/2 3 2 0", vec![2]),
        mk("single-child", 3, "d4", "o 1 0/t 2 0/1 2 1 0", vec![1, 3, 5, 7]),
        mk("iff", 2, "c2d", "nnf 7 6 2/L 1/L -1/L 2/L -2/A 2 0 2/A 2 1 3/O 1 2 4 5", vec![0, 3]),
    ]
}

pub fn run(_kind: &str, ctx: &Ctx, out: &mut dyn Write) {
    let mut rng = Rng::new(ctx.seed);
    let srcs = sources(ctx, &mut rng);
    let mut k = 0;
    let mut inputs: Vec<Input> = fixed_inputs();
    for src in srcs.iter() {
        if let Some(i) = make_input(format!("c19-{}", k), src, &mut rng) {
            if i.n >= 2 {
                k += 1;
                inputs.push(i);
            }
        }
    }
    for inp in inputs.into_iter() {
        let mut s = String::new();
        writeln!(s, "case {} C19", inp.id).unwrap();
        writeln!(s, "info {}", inp.desc).unwrap();
        writeln!(s, "n {}", inp.n).unwrap();
        write_models(&mut s, &inp);
        s.push_str(&file_block(inp.format, &inp.lines));
        match load(&inp.lines, Some(inp.n)) {
            Err(e) => writeln!(s, "impl loadpanic {}", e).unwrap(),
            Ok(d) => {
                s.push_str(&dump_circuit(&d));
                writeln!(s, "impl nvars {}", d.number_of_variables).unwrap();
                writeln!(s, "impl rc {}", d.rc()).unwrap();
                // exactly what ddnnife_bin's `to-cnf` does: Cnf::from(&ddnnf).to_string()
                match guarded(|| {
                    let cnf = Cnf::from(&d);
                    let text = cnf.to_string();
                    (cnf, text)
                }) {
                    Err(e) => writeln!(s, "impl panic {}", e).unwrap(),
                    Ok((cnf, text)) => {
                        writeln!(s, "impl header {} {}", cnf.num_variables, cnf.clauses.len()).unwrap();
                        for c in cnf.clauses.iter() {
                            writeln!(s, "impl clause {}", join(c)).unwrap();
                        }
                        let tl: Vec<String> = text.split('\n').map(|l| l.to_string()).collect();
                        writeln!(s, "impl headerline {}", tl.first().cloned().unwrap_or_default()).unwrap();
                        s.push_str(&file_block("cnftext", &tl));
                    }
                }
            }
        }
        writeln!(s, "end").unwrap();
        out.write_all(s.as_bytes()).unwrap();
    }
}
