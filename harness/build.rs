// generates mods.rs: one `mod` per src/k_*.rs and the dispatch table.
// every k_*.rs defines  pub const KINDS: &[&str]  and  pub fn run(kind: &str, ctx: &Ctx, out: &mut dyn Write)
use std::fs;
use std::path::Path;

fn main() {
    let src = Path::new(env!("CARGO_MANIFEST_DIR")).join("src");
    let mut mods: Vec<String> = fs::read_dir(&src)
        .unwrap()
        .filter_map(|e| e.ok())
        .filter_map(|e| e.file_name().into_string().ok())
        .filter(|n| n.starts_with("k_") && n.ends_with(".rs"))
        .map(|n| n[..n.len() - 3].to_string())
        .collect();
    mods.sort();
    let mut s = String::new();
    for m in &mods {
        s.push_str(&format!("#[path = \"{}/{}.rs\"]\npub mod {};\n", src.display(), m, m));
    }
    s.push_str("pub fn dispatch(kind: &str, ctx: &crate::common::Ctx, out: &mut dyn std::io::Write) -> bool {\n");
    for m in &mods {
        s.push_str(&format!(
            "    if {m}::KINDS.contains(&kind) {{ {m}::run(kind, ctx, out); return true; }}\n",
            m = m
        ));
    }
    s.push_str("    false\n}\n");
    let out = Path::new(&std::env::var("OUT_DIR").unwrap()).join("mods.rs");
    fs::write(out, s).unwrap();
    println!("cargo:rerun-if-changed=src");
    // optional hooks of /repo: cfg(has_h7) when the ddnnife sources offer the clause cache view (H7)
    println!("cargo:rustc-check-cfg=cfg(has_h7)");
    let manifest = fs::read_to_string(Path::new(env!("CARGO_MANIFEST_DIR")).join("Cargo.toml")).unwrap_or_default();
    if let Some(line) = manifest.lines().find(|l| l.trim_start().starts_with("ddnnife =")) {
        if let Some(i) = line.find("path = \"") {
            let rest = &line[i + 8..];
            if let Some(j) = rest.find('"') {
                let f = Path::new(&rest[..j]).join("src/ddnnf/clause_cache.rs");
                println!("cargo:rerun-if-changed={}", f.display());
                println!("cargo:rerun-if-changed=Cargo.toml");
                if fs::read_to_string(&f).map(|t| t.contains("VerifCacheView")).unwrap_or(false) {
                    println!("cargo:rustc-cfg=has_h7");
                }
            }
        }
    }
}
