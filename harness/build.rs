// generates mods.rs: one `mod` per src/k_*.rs and the dispatch table.
// every k_*.rs defines  pub const KINDS: &[&str]  and  pub fn run(kind: &str, ctx: &Ctx, out: &mut dyn Write)
use std::fs;
use std::path::Path;

fn main() {
    let src = Path::new(env!("CARGO_MANIFEST_DIR")).join("src");
    let mut mods: Vec<String> = fs::read_dir(&src)
        .unwrap()
        .filter_map(|e| e.ok())
        .filter_map(|e| e.file_name().into_string().ok())
        .filter(|n| n.starts_with("k_") && n.ends_with(".rs"))
        .map(|n| n[..n.len() - 3].to_string())
        .collect();
    mods.sort();
    let mut s = String::new();
    for m in &mods {
        s.push_str(&format!("#[path = \"{}/{}.rs\"]\npub mod {};\n", src.display(), m, m));
    }
    s.push_str("pub fn dispatch(kind: &str, ctx: &crate::common::Ctx, out: &mut dyn std::io::Write) -> bool {\n");
    for m in &mods {
        s.push_str(&format!(
            "    if {m}::KINDS.contains(&kind) {{ {m}::run(kind, ctx, out); return true; }}\n",
            m = m
        ));
    }
    s.push_str("    false\n}\n");
    let out = Path::new(&std::env::var("OUT_DIR").unwrap()).join("mods.rs");
    fs::write(out, s).unwrap();
    println!("cargo:rerun-if-changed=src");
    // optional hooks: cfg(verif_h7) when the ddnnife sources the harness is built against contain
    // hook H7 (repo_patches/H7-titer.patch: verif_t_indices / verif_t_interactions)
    println!("cargo::rustc-check-cfg=cfg(verif_h7)");
    let manifest = Path::new(env!("CARGO_MANIFEST_DIR")).join("Cargo.toml");
    println!("cargo:rerun-if-changed={}", manifest.display());
    if let Ok(txt) = fs::read_to_string(&manifest) {
        if let Some(line) = txt.lines().find(|l| l.trim_start().starts_with("ddnnife ") || l.trim_start().starts_with("ddnnife=")) {
            if let Some(p0) = line.find("path") {
                let rest = &line[p0..];
                if let (Some(a), Some(b)) = (rest.find('"'), rest[rest.find('"').unwrap() + 1..].find('"')) {
                    let dep = &rest[a + 1..a + 1 + b];
                    let f = Path::new(dep).join("src/ddnnf/anomalies/t_wise_sampling.rs");
                    println!("cargo:rerun-if-changed={}", f.display());
                    if fs::read_to_string(&f).map(|t| t.contains("pub fn verif_t_indices")).unwrap_or(false) {
                        println!("cargo:rustc-cfg=verif_h7");
                    }
                }
            }
        }
    }
}
