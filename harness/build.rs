// generates mods.rs: one `mod` per src/k_*.rs and the dispatch table.
// every k_*.rs defines  pub const KINDS: &[&str]  and  pub fn run(kind: &str, ctx: &Ctx, out: &mut dyn Write)
use std::fs;
use std::path::Path;

fn main() {
    let src = Path::new(env!("CARGO_MANIFEST_DIR")).join("src");
    let mut mods: Vec<String> = fs::read_dir(&src)
        .unwrap()
        .filter_map(|e| e.ok())
        .filter_map(|e| e.file_name().into_string().ok())
        .filter(|n| n.starts_with("k_") && n.ends_with(".rs"))
        .map(|n| n[..n.len() - 3].to_string())
        .collect();
    mods.sort();
    let mut s = String::new();
    for m in &mods {
        s.push_str(&format!("#[path = \"{}/{}.rs\"]\npub mod {};\n", src.display(), m, m));
    }
    s.push_str("pub fn dispatch(kind: &str, ctx: &crate::common::Ctx, out: &mut dyn std::io::Write) -> bool {\n");
    for m in &mods {
        s.push_str(&format!(
            "    if {m}::KINDS.contains(&kind) {{ {m}::run(kind, ctx, out); return true; }}\n",
            m = m
        ));
    }
    s.push_str("    false\n}\n");
    let out = Path::new(&std::env::var("OUT_DIR").unwrap()).join("mods.rs");
    fs::write(out, s).unwrap();
    println!("cargo:rerun-if-changed=src");
    probe_hooks();
}

/// Hook probes: `cargo:rustc-cfg=<cfg>` when the ddnnife sources this harness is built against
/// contain the hook's entry point (so that a check can fall back when a hook is absent).
/// (cfg name, file below <ddnnife>/src, needle)
const HOOK_PROBES: &[(&str, &str, &str)] = &[
    ("has_h3", "ddnnf/anomalies/config_creation.rs", "pub fn verif_set_sched_callback"),
    // H3b (with repair F21): the enumeration cursor is a field of Ddnnf, reset / snapshot per instance
    ("has_h3b", "ddnnf.rs", "pub fn verif_reset_enumeration_cursor"),
    ("verif_h7", "ddnnf/anomalies/t_wise_sampling.rs", "pub fn verif_t_indices"),
    // H9: order-decision log of the t-wise sampler (replayed by chk_c09 in the extracted model)
    ("verif_h9", "ddnnf/anomalies/t_wise_sampling.rs", "pub fn verif_twise_log_start"),
    // H8: clause cache view (the C12 harness calls it cfg has_h7 for historical reasons)
    ("has_h7", "ddnnf/clause_cache.rs", "VerifCacheView"),
];

fn probe_hooks() {
    let manifest = Path::new(env!("CARGO_MANIFEST_DIR")).join("Cargo.toml");
    println!("cargo:rerun-if-changed={}", manifest.display());
    let text = fs::read_to_string(&manifest).unwrap_or_default();
    // ddnnife = { path = "...", ... }
    let dir = text
        .lines()
        .find(|l| l.trim_start().starts_with("ddnnife ") || l.trim_start().starts_with("ddnnife="))
        .and_then(|l| l.split("path").nth(1))
        .and_then(|r| r.split('"').nth(1))
        .map(|p| p.to_string())
        .unwrap_or_else(|| "/repo/ddnnife".to_string());
    for (cfg, file, needle) in HOOK_PROBES {
        println!("cargo:rustc-check-cfg=cfg({})", cfg);
        let f = Path::new(&dir).join("src").join(file);
        println!("cargo:rerun-if-changed={}", f.display());
        if fs::read_to_string(&f).map(|t| t.contains(needle)).unwrap_or(false) {
            println!("cargo:rustc-cfg={}", cfg);
        }
    }
}
